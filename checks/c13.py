"""C13 -- OSCORE nonces are never reused across restarts, crashes and exhaustion.

One scenario = one history of operations on a file-backed security context N
(`FilesystemSecurityContext` on SimFS) and an in-memory peer P, *plus* the
crash points explored for it.  `execute` first runs the history crash-free to
learn the file-system journal (k steps) and then re-executes it once per crash
plan ("process dies before step i", optionally tearing the flush at step i,
optionally crashing a second time).  The crash plans come from
`scn["crash_at"]` when present (that is how a minimised replay file pins the
one failing crash point), otherwise from `scn["crash"]` (`mode: all` is a pure
function of the journal; `mode: sample` asks `sim.decider`, so the sampled
list is recorded in the replay file).
"""

import hashlib
import json

from simkit import refcodec as rc

PROPERTY = "C13"
LEVEL = "fault_enumeration"
RUNS = {"quick": 300, "thorough": 20000}
BUDGET = {"quick": 80, "thorough": 3000}
USES_AIOCOAP_NET = False
RULE = ("seeded histories of 3-25 operations (N protects requests singly or in bursts across the persistence "
        "chunk boundaries, N protects responses reusing the request nonce or with an own partial IV, P->N request "
        "delivery, replay of earlier P->N datagrams, Echo round trips with fresh and stale Echo values, P->N "
        "responses, clean stop, op-level crash, handover (the successor is constructed while the predecessor still "
        "works and then stops cleanly); random algorithm, ID lengths, window size, chunk sizes start 1-20 / "
        "limit 1-200 or the shipped 10/10000, sequence.json absent, preset, 'unknown' or near 2^40-1) plus a fixed "
        "epilogue (protect, replay everything, protect); each history is executed crash-free and then once per crash "
        "plan: process death before file-system step i (quick: all steps of the first and last _store plus a seeded "
        "sample; thorough and the systematic grid: every step), torn flushes, double crashes; a separate "
        "configuration injects one or two I/O errors (ENOSPC/EIO/EMFILE) and enumerates crashes on top. "
        "evaluations = scenarios (history + its crash plans); crash_points_enumerated = history executions with a "
        "crash. Non-trivial = at least one crash, torn write, I/O error or clean stop happened; distinct = distinct "
        "hash of (operation kinds, journal step kinds, crash plans).")
COMPONENTS_REAL = ["aiocoap.oscore.FilesystemSecurityContext (_load, _store, post_seqnoincrease, "
                   "_replay_window_changed, _destroy)", "aiocoap.oscore.CanProtect/CanUnprotect/ReplayWindow",
                   "aiocoap.message (encode/decode)", "cryptography 38.0.4 (AEAD, HKDF)", "json"]
COMPONENTS_STUB = ["file system (SimFS: open/io.open/os/tempfile seams of aiocoap.oscore)", "filelock (SimFS-aware)",
                   "secrets.token_bytes (seeded, never repeating)", "cbor2 (deterministic stand-in, validated "
                   "against RFC 8613 appendix C)", "peer P (in-memory context of the same library, mirrored keys)",
                   "event loop of an incarnation in loop mode (plain asyncio loop, no I/O, no timers; runs queued "
                   "callbacks only at the scenario's await points)"]
ASSUMPTIONS = ["crash = process death between two file-system calls: completed calls survive, user-space buffers, "
               "descriptors and locks vanish, the lock file stays; a flush may be torn",
               "power loss (un-synced data lost) is an exploratory switch only and never gates",
               "os.replace is atomic", "the peer's sender sequence numbers increase monotonically and the peer never "
               "loses state", "I/O errors are outside the property's quantifier but inside its statement; they run "
               "as a separate configuration with their own violation kinds (suffix -after-io-error)"]
EXPECTED_PROBES = ["crash_in_mkstemp", "crash_in_flush", "crash_in_fsync", "crash_in_replace", "crash_in_load",
                   "crash_in_destroy", "torn_flush", "double_crash", "echo_recovered", "echo_demanded", "exhausted",
                   "clean_stop", "replay_rejected_after_clean_stop", "replay_rejected_after_crash",
                   "response_nonce_reused_once", "io_error_fired", "chunk_boundary_crossed", "stale_echo_rejected", "handover"]

MAX_SEQNO = 2 ** 40 - 1
BASEDIR = "/ctx"

EPILOGUE = [["nreq"], ["replayall"], ["nreq"]]

IO_KINDS = [("mkstemp", "EMFILE"), ("write", "ENOSPC"), ("flush", "ENOSPC"), ("fsync", "EIO"), ("replace", "EIO"),
            ("open", "EIO"), ("open", "EMFILE")]


# ------------------------------------------------------------------ generation


def _algs():
    return ["AES-CCM-16-64-128", "AES-CCM-16-64-256", "AES-CCM-64-64-128", "AES-CCM-64-64-256",
            "AES-CCM-16-128-128", "AES-CCM-16-128-256", "AES-CCM-64-128-128", "AES-CCM-64-128-256",
            "ChaCha20/Poly1305", "A128GCM", "A192GCM", "A256GCM"]


_IV_BYTES = {"AES-CCM-16-64-128": 13, "AES-CCM-16-64-256": 13, "AES-CCM-64-64-128": 7, "AES-CCM-64-64-256": 7,
             "AES-CCM-16-128-128": 13, "AES-CCM-16-128-256": 13, "AES-CCM-64-128-128": 7, "AES-CCM-64-128-256": 7,
             "ChaCha20/Poly1305": 12, "A128GCM": 12, "A192GCM": 12, "A256GCM": 12}


def gen_ctx(r, simple=False):
    alg = "AES-CCM-16-64-128" if (simple or r.chance(0.4)) else r.choice(_algs())
    maxid = _IV_BYTES[alg] - 6
    while True:
        sid = r.randbytes(r.randint(0, maxid))
        rid = r.randbytes(r.randint(0, maxid))
        if sid != rid:
            break
    shipped = r.chance(0.25)
    return {
        "alg": alg, "sid": sid.hex(), "rid": rid.hex(),
        "idctx": r.randbytes(r.randint(0, 8)).hex() if r.chance(0.3) else None,
        "secret": r.randbytes(16).hex(), "salt": r.randbytes(r.choice([0, 8])).hex(),
        "window": r.choice([1, 2, 3, 4, 8, 32, 32, 64]),
        "chunk_start": None if shipped else r.randint(1, 20),
        "chunk_limit": None if shipped else r.randint(1, 200),
    }


def gen_ops(r, n):
    ops = []
    for _ in range(n):
        k = r.weighted([(28, "nreq"), (9, "burst"), (22, "req"), (12, "replay"), (10, "resp"), (5, "presp"),
                        (7, "stop"), (5, "crash"), (2, "replayall"), (4, "handover")])
        if k == "burst":
            ops.append(["burst", r.choice([2, 3, 3, 5, 5, 9, 10, 11, 12, 19, 21, 30, 31, 45, 71])])
        elif k == "req":
            ops.append(["req", r.weighted([(5, "plain"), (4, "echo"), (1, "stale")])])
        elif k == "replay":
            ops.append(["replay", r.randint(0, 30)])
        elif k == "resp":
            ops.append(["resp", r.randint(0, 5)])
        elif k == "presp":
            ops.append(["presp", r.chance(0.6)])
        elif k == "handover":
            # the successor process is started while the old one still runs: the old one uses the context a few
            # more times (possibly across a persistence chunk boundary) and then stops cleanly
            ops.append(["handover", r.choice([0, 1, 2, 3, 5, 11, 12, 25]), r.choice([0, 0, 1, 2])])
            if r.chance(0.4):
                # ... and a third user of the directory turns up while the second one is busy
                ops.append(["handover", r.choice([0, 1, 3, 12]), r.choice([0, 1])])
        else:
            ops.append([k])
    return ops


def gen(r, tier):
    cfg = "io" if r.chance(0.3) else "crash"
    ctx = gen_ctx(r)
    x = r.random()
    if x < 0.45:
        init = None
    elif x < 0.8:
        nxt = r.choice([0, 1, 9, 10, 255, 256, 65535, 65536, r.randint(0, 2 ** 32)])
        init = {"next": nxt, "received": "unknown" if r.chance(0.3) else {"index": 0, "bitfield": 0}}
    else:
        init = {"next": MAX_SEQNO - r.randint(0, 40), "received": {"index": 0, "bitfield": 0}}
    scn = {"cfg": cfg, "ctx": ctx, "init": init, "ops": gen_ops(r, r.randint(3, 25))}
    if cfg == "io":
        rules = []
        for _ in range(r.choice([1, 1, 2])):
            op, en = r.choice(IO_KINDS)
            rules.append({"op": op, "nth": r.choice([0, 0, 1, 1, 2, 3, 4, 6]), "count": r.choice([1, 1, 1, 2, 3]),
                          "errno": en})
        scn["io_errors"] = rules
    if tier == "thorough":
        scn["crash"] = {"mode": "all", "torn": 2, "double": 3}
    else:
        scn["crash"] = {"mode": "sample", "n": 10, "torn": 1, "double": 1}
    if r.chance(0.3):
        # the context is used from inside a running asyncio event loop (as the library does): several operations happen
        # within one loop iteration, the loop gets to run its callbacks only where the application awaits -- and
        # whatever it has queued and not yet run when the process dies is lost with it
        scn["loop"] = {"yield_after": sorted(i for i in range(len(scn["ops"])) if r.chance(0.4))}
    if r.chance(0.3):
        # how far the host's wall clock moves from one incarnation to the next (default: not at all -- restarts
        # within one second; also backwards, and jumps)
        scn["wall_steps"] = [r.choice([0.0, 0.3, 1.0, 2.5, 3600.0, -1.0, -3600.0]) for _ in range(r.randint(1, 3))]
    return scn


def _shipped_ctx(window=32, start=None, limit=None):
    return {"alg": "AES-CCM-16-64-128", "sid": "01", "rid": "02", "idctx": None,
            "secret": "000102030405060708090a0b0c0d0e0f", "salt": "", "window": window,
            "chunk_start": start, "chunk_limit": limit}


ALL = {"mode": "all", "torn": 1, "double": 0}


def corpus():
    out = []
    # shipped chunk sizes: twelve protects, clean stop, three more (the journal DESIGN 7 C13 lists)
    out.append({"cfg": "crash", "ctx": _shipped_ctx(), "init": None,
                "ops": [["burst", 12], ["stop"], ["burst", 3]], "crash": ALL, "name": "shipped-12-stop"})
    out.append({"cfg": "crash", "ctx": _shipped_ctx(), "init": None, "powerloss": True,
                "ops": [["burst", 12], ["req", "plain"], ["stop"], ["burst", 3]], "crash": ALL,
                "name": "powerloss-exploratory (never gates)"})
    # exhaustion: the last numbers before 2^40-1, with a stop in between
    out.append({"cfg": "crash", "ctx": _shipped_ctx(start=2, limit=4),
                "init": {"next": MAX_SEQNO - 4, "received": {"index": 0, "bitfield": 0}},
                "ops": [["burst", 3], ["stop"], ["burst", 4], ["req", "plain"], ["resp", 0], ["resp", 0]],
                "crash": ALL, "name": "exhaustion"})
    # replay state: accepted requests, op-level crash, Echo round trip, replays, clean stop
    out.append({"cfg": "crash", "ctx": _shipped_ctx(window=4), "init": None,
                "ops": [["req", "plain"], ["resp", 0], ["req", "plain"], ["crash"], ["replay", 0], ["req", "plain"],
                        ["req", "echo"], ["resp", 0], ["replay", 1], ["stop"], ["replayall"], ["req", "stale"],
                        ["crash"], ["req", "stale"], ["req", "echo"], ["req", "echo"], ["replayall"]],
                "crash": ALL, "name": "echo-recovery"})
    # clean stop while the window is still uninitialised, responses from P initialising it
    out.append({"cfg": "crash", "ctx": _shipped_ctx(window=2, start=1, limit=1),
                "init": {"next": 255, "received": "unknown"},
                "ops": [["req", "plain"], ["stop"], ["req", "plain"], ["nreq"], ["presp", True], ["req", "plain"],
                        ["replayall"], ["crash"], ["nreq"], ["presp", False], ["req", "plain"]],
                "crash": ALL, "name": "unknown-window-stop"})
    # I/O errors (separate configuration): the store of the first / second chunk fails
    for op, en in IO_KINDS:
        for nth in (0, 1):
            out.append({"cfg": "io", "ctx": _shipped_ctx(start=2, limit=8), "init": None,
                        "io_errors": [{"op": op, "nth": nth, "count": 1, "errno": en}],
                        "ops": [["burst", 4], ["crash"], ["burst", 2]], "crash": {"mode": "none"},
                        "name": "io-%s-%d-sender" % (op, nth)})
        # the store of the "unknown" marker fails
        out.append({"cfg": "io", "ctx": _shipped_ctx(), "init": None,
                    "io_errors": [{"op": op, "nth": 0, "count": 1, "errno": en}],
                    "ops": [["req", "plain"], ["req", "plain"], ["resp", 0], ["crash"], ["replayall"], ["resp", 0]],
                    "crash": {"mode": "none"}, "name": "io-%s-window" % op})
    return out


def systematic(tier):
    """Number of protect operations relative to the chunk sizes, every crash point."""
    out = []
    if tier == "thorough":
        chunks = [(None, None), (1, 1), (1, 3), (2, 3), (3, 200), (7, 10), (20, 1)]
        counts = list(range(0, 46)) + [69, 70, 71, 149, 150, 151]
    else:
        chunks = [(None, None), (1, 1), (2, 3)]
        counts = [0, 1, 2, 3, 9, 10, 11, 29, 30, 31]
    for (cs, cl) in chunks:
        for n in counts:
            for tail in ("stop", "none"):
                ops = ([["burst", n]] if n else []) + ([["stop"]] if tail == "stop" else [])
                out.append({"cfg": "crash", "ctx": _shipped_ctx(start=cs, limit=cl), "init": None, "ops": ops,
                            "crash": {"mode": "all", "torn": 0, "double": 0}})
    return out


# ------------------------------------------------------------------ one execution of a history


class Run:
    def __init__(self, osc, scn, plan, run_seed):
        from simkit import fs_oscore as F
        from simkit import oscore_env as env

        self.F = F
        self.env = env
        self.osc = osc
        self.scn = scn
        self.plan = [list(p) for p in (plan or [])]
        c = scn["ctx"]
        self.sid = bytes.fromhex(c["sid"])
        self.rid = bytes.fromhex(c["rid"])
        self.idctx = None if c.get("idctx") is None else bytes.fromhex(c["idctx"])
        self.fs = F.SimFS(powerloss=bool(scn.get("powerloss")))
        self.fs.mkdir(BASEDIR)
        settings = {"algorithm": c["alg"], "window": c["window"], "sender-id_hex": c["sid"],
                    "recipient-id_hex": c["rid"], "secret_hex": c["secret"]}
        if c.get("salt"):
            settings["salt_hex"] = c["salt"]
        if c.get("idctx") is not None:
            settings["id-context_hex"] = c["idctx"]
        self.fs.put(BASEDIR + "/settings.json", json.dumps(settings).encode())
        init = scn.get("init")
        if init:
            self.fs.put(BASEDIR + "/sequence.json",
                        json.dumps({"next-to-send": init["next"], "received": init["received"]}).encode())
        self.fs.crash_plan = [list(p) for p in self.plan]
        self.fs.io_rules = [dict(r) for r in scn.get("io_errors") or []]
        self.secrets = env.SeededSecrets("%s|c13" % run_seed)
        # the wall clock of the host: stands still unless the scenario moves it between two incarnations (restarts
        # within the same second, a clock that is set back, a device without a real-time clock)
        self.clock = self.F.TimeShim()
        self.wall_steps = list(scn.get("wall_steps") or [0.0])
        self.P = env.make_context(osc, c["alg"], "sha256", self.rid, self.sid, self.idctx,
                                  bytes.fromhex(c.get("salt") or ""), bytes.fromhex(c["secret"]),
                                  seqno=0, window=64, initialized=True)
        # state
        self.N = None
        self.objs = []
        self.inc = 0
        self.boundaries = []  # kind of the stop that ended incarnation i: "crash" | "clean"
        self.ended = False
        self.nonces = {}
        self.last_own = None
        self.p_reqs = []  # {"wire", "seq", "rid", "accepted": [(inc, opidx)], "echo": hex|None}
        self.p_echoes = []
        self.accepted_inc = []  # [(j, request_id)] accepted in the current incarnation
        self.n_last = None  # (wire, n_rid) of N's last request in this incarnation
        self.window_initialized_at_stop = None
        self.mid = 0
        self.violations = []
        self.anomalies = []
        self.probes = {}
        self.log = []
        self.op_steps = []  # (opidx, first_step, last_step)
        self.opidx = -1
        self.crash_ops = []
        self.stats = {"crash": 0, "torn_write": 0, "clean_stop": 0, "io_error": 0, "op_crash": 0}
        self.in_destroy = False
        self.in_load = False

    # ---- reporting ---------------------------------------------------------------
    def probe(self, name, n=1):
        self.probes[name] = self.probes.get(name, 0) + n

    def violation(self, kind, detail):
        if self.fs.io_fired:
            # separate configuration, separate kinds: the *how* moves into the detail
            for how in ("-within-incarnation", "-after-crash", "-after-clean-stop"):
                if kind.endswith(how):
                    detail = dict(detail, how=how[1:])
                    kind = kind[:-len(how)]
            kind = kind + "-after-io-error"
            detail = dict(detail, io_errors_fired=[list(x) for x in self.fs.io_fired])
        detail = dict(detail, crash_plan=self.plan, crashes_fired=[list(x) for x in self.fs.crashes],
                      op_index=self.opidx, incarnation=self.inc)
        self.violations.append((kind, detail))

    def anomaly(self, kind, detail=""):
        self.anomalies.append((kind, str(detail)[:300]))

    def how(self, inc_first):
        if inc_first == self.inc:
            return "within-incarnation"
        return "after-crash" if "crash" in self.boundaries[inc_first:self.inc] else "after-clean-stop"

    # ---- N's life cycle -------------------------------------------------------------
    def load(self):
        """Start an incarnation: construct the context as the application would."""
        osc = self.osc
        c = self.scn["ctx"]
        while True:
            if self.inc:
                self.clock.advance(self.wall_steps[(self.inc - 1) % len(self.wall_steps)])
            cls = osc.FilesystemSecurityContext
            obj = cls.__new__(cls)
            self.objs.append(obj)
            self.in_load = True
            try:
                if c.get("chunk_start") is None:
                    obj.__init__(BASEDIR)
                else:
                    obj.__init__(BASEDIR, sequence_number_chunksize_start=c["chunk_start"],
                                 sequence_number_chunksize_limit=c["chunk_limit"])
            except self.F.Crash:
                self.in_load = False
                self.note_crash("load")
                self.discard(obj)
                self.boundaries.append("crash")
                self.inc += 1
                self.fs.restart()
                continue
            except self.F.SeamMissing:
                raise
            except Exception as e:
                self.in_load = False
                # what the interpreter does next with the half-built object: __del__ -> _destroy()
                self.anomaly("reload-failed", "%s: %s" % (type(e).__name__, e))
                self.log.append(("reload-failed", type(e).__name__))
                self.probe("reload_failed")
                try:
                    if getattr(obj, "lockfile", None) is not None:
                        obj._destroy()
                except self.F.Crash:
                    pass
                except self.F.SeamMissing:
                    raise
                except Exception as e2:
                    self.anomaly("del-after-failed-load", "%s: %s" % (type(e2).__name__, e2))
                self.discard(obj)
                self.N = None
                self.failed_starts = getattr(self, "failed_starts", 0) + 1
                if isinstance(e, OSError) and self.failed_starts <= 3:
                    # the start failed on an I/O error (the half-built object was finalised as the interpreter would);
                    # the service is started again
                    self.probe("start_failed_on_io_error_then_restarted")
                    self.boundaries.append("crash")
                    self.inc += 1
                    self.fs.restart()
                    continue
                self.ended = True
                return
            self.in_load = False
            self.N = obj
            self.last_own = None
            self.accepted_inc = []
            self.n_last = None
            self.log.append(("load", self.inc, obj.sender_sequence_number,
                             obj.recipient_replay_window.is_initialized()))
            return

    def discard(self, obj):
        try:
            obj.lockfile = None  # neutralise __del__: a dead process runs no finalisers
        except Exception:
            pass

    def note_crash(self, where):
        self.stats["crash"] += 1
        if self.fs.crashes:
            step, op, torn = self.fs.crashes[-1]
            self.probe("crash_in_" + op)
            if torn >= 0:
                self.stats["torn_write"] += 1
                self.probe("torn_flush")
            if len(self.fs.crashes) >= 2:
                self.probe("double_crash")
        if self.in_destroy:
            self.probe("crash_in_destroy")
        if where == "load":
            self.probe("crash_in_load")
        self.crash_ops.append(self.opidx)
        self.log.append(("crash", self.opidx, where, self.fs.step))

    def after_crash(self, where):
        """The process died inside operation `opidx` (or at its boundary)."""
        self.note_crash(where)
        if self.N is not None:
            self.discard(self.N)
        self.N = None
        self.in_destroy = False
        self.boundaries.append("crash")
        self.inc += 1
        self.fs.restart()
        self.load()

    def clean_stop(self):
        N = self.N
        self.window_initialized_at_stop = N.recipient_replay_window.is_initialized()
        self.in_destroy = True
        try:
            N._destroy()  # what __del__ does
        except OSError as e:
            # the stop did not complete; the process ends anyway
            self.in_destroy = False
            self.log.append(("stop-failed", e.errno))
            self.probe("clean_stop_failed")
            self.fs.die()
            self.discard(N)
            self.N = None
            self.boundaries.append("crash")
            self.inc += 1
            self.fs.restart()
            self.load()
            return
        self.in_destroy = False
        self.stats["clean_stop"] += 1
        self.probe("clean_stop")
        self.log.append(("stop", self.inc))
        self.discard(N)
        self.N = None
        self.boundaries.append("clean")
        self.inc += 1
        self.fs.restart()
        self.load()

    def handover(self, n_protect, n_receive):
        """Successor B is constructed while predecessor A is alive.  Whenever B finds the lock taken, A goes on:
        it protects n_protect requests, accepts n_receive requests of the peer and stops cleanly (releasing the
        lock), all of that before B's wait for the lock is over.  A crash in here takes both down."""
        osc = self.osc
        c = self.scn["ctx"]
        A = self.N
        state = {"ran": False, "stopped": False}

        def predecessor_goes_on():
            state["ran"] = True
            for _ in range(n_protect):
                self.op_nreq()
            for _ in range(n_receive):
                self.op_req("plain")
            self.window_initialized_at_stop = A.recipient_replay_window.is_initialized()
            self.in_destroy = True
            A._destroy()
            self.in_destroy = False
            state["stopped"] = True
            self.log.append(("stop", self.inc, "handover"))

        self.fs.on_lock_contention = predecessor_goes_on
        cls = osc.FilesystemSecurityContext
        B = cls.__new__(cls)
        self.objs.append(B)
        self.probe("handover")
        try:
            try:
                if c.get("chunk_start") is None:
                    B.__init__(BASEDIR)
                else:
                    B.__init__(BASEDIR, sequence_number_chunksize_start=c["chunk_start"],
                               sequence_number_chunksize_limit=c["chunk_limit"])
            finally:
                self.fs.on_lock_contention = None
        except self.F.Crash:
            self.discard(B)
            raise  # -> after_crash: both processes are gone
        except self.F.SeamMissing:
            raise
        except Exception as e:
            # the successor could not start (lock not released in time, I/O error ...): it gives up, A stays
            self.anomaly("handover-failed", "%s: %s" % (type(e).__name__, e))
            self.log.append(("handover-failed", type(e).__name__))
            try:
                if getattr(B, "lockfile", None) is not None and B is not A:
                    B.lockfile = None
            except Exception:
                pass
            self.in_destroy = False
            if state["stopped"]:
                # A is gone as well: start afresh
                self.discard(A)
                self.N = None
                self.boundaries.append("clean")
                self.inc += 1
                self.fs.restart()
                self.load()
            elif state["ran"]:
                # A's own stop failed half way (I/O error): its process ends anyway, uncleanly
                self.probe("clean_stop_failed")
                self.fs.die()
                self.discard(A)
                self.N = None
                self.boundaries.append("crash")
                self.inc += 1
                self.fs.restart()
                self.load()
            return
        if not state["stopped"]:
            # B got the lock without A having let go of it: two live instances on one directory
            self.violations.append(("C13/two-instances-hold-the-context", {"op_index": self.opidx}))
            self.discard(B)
            return
        self.stats["clean_stop"] += 1
        self.probe("clean_stop")
        self.discard(A)
        self.boundaries.append("clean")
        self.inc += 1
        self.N = B
        self.last_own = None
        self.accepted_inc = []
        self.n_last = None
        self.log.append(("load", self.inc, B.sender_sequence_number, B.recipient_replay_window.is_initialized()))

    # ---- wire helpers ------------------------------------------------------------------
    def wire(self, msg):
        self.mid = (self.mid + 1) & 0xFFFF
        return self.env.to_wire(msg, self.mid, self.mid.to_bytes(2, "big"))

    def option_of(self, data):
        ref = rc.decode(data)
        v = rc.opt1(ref, rc.OSCORE)
        if v is None:
            raise AssertionError("protect returned a message without OSCORE option")
        return self.env.parse_oscore_option(v)

    # ---- oracle on everything N.protect returned ------------------------------------------
    def issued(self, data, what, req_j=None):
        o = self.option_of(data)
        if o["piv"] is not None:
            piv = int.from_bytes(o["piv"], "big")
            key = (self.sid.hex(), piv)
            base = "nonce-reuse"
            if piv >= MAX_SEQNO:
                self.violation("C13/seqno-at-or-beyond-max-issued", {"piv": piv, "what": what})
            if self.last_own is not None and piv <= self.last_own and key not in self.nonces:
                self.violation("C13/seqno-not-increasing", {"piv": piv, "previous": self.last_own, "what": what})
            if self.last_own is not None and piv > self.last_own + 1:
                self.probe("seqno_gap_within_incarnation")
            self.last_own = piv if self.last_own is None else max(self.last_own, piv)
        else:
            if req_j is None:
                self.violation("C13/request-without-partial-iv", {"what": what})
                return None
            piv = self.p_reqs[req_j]["seq"]
            key = (self.rid.hex(), piv)
            base = "response-nonce-reuse"
            self.probe("response_nonce_reused_once")
        first = self.nonces.get(key)
        if first is not None:
            self.violation("C13/%s-%s" % (base, self.how(first["inc"])),
                           {"generator_id": key[0], "piv": piv, "first": first, "second": what,
                            "boundaries": self.boundaries[first["inc"]:self.inc]})
        else:
            self.nonces[key] = {"inc": self.inc, "op": self.opidx, "what": what}
        self.log.append(("issued", what, key[0], piv))
        return piv

    # ---- operations ----------------------------------------------------------------------------
    def n_protect(self, msg, what, request_id=None, req_j=None):
        """Returns the datagram or None (refused / failed)."""
        osc = self.osc
        try:
            outer, rid = self.N.protect(msg, request_id)
        except osc.ContextUnavailable:
            self.probe("exhausted")
            self.log.append(("protect", what, "exhausted"))
            if self.N.sender_sequence_number < MAX_SEQNO:
                self.anomaly("context-unavailable-below-max", self.N.sender_sequence_number)
            return None, None
        except OSError as e:
            if not self.fs.io_fired:
                self.anomaly("protect-unexpected-oserror", "%s: %s" % (type(e).__name__, e))
            self.probe("protect_failed_with_oserror")
            self.log.append(("protect", what, "oserror", e.errno))
            return None, None
        except (self.F.Crash, self.F.SeamMissing):
            raise
        except Exception as e:
            self.anomaly("protect-unexpected-exception", "%s: %s" % (type(e).__name__, e))
            self.log.append(("protect", what, "exception", type(e).__name__))
            return None, None
        data = self.wire(outer)
        self.issued(data, what, req_j)
        return data, rid

    def op_nreq(self):
        from aiocoap import Message, GET

        before = self.N.sequence_number_persisted if hasattr(self.N, "sequence_number_persisted") else None
        data, rid = self.n_protect(Message(code=GET, uri_path=["n", "%d" % len(self.nonces)]), "request")
        if before is not None and getattr(self.N, "sequence_number_persisted", before) != before:
            self.probe("chunk_boundary_crossed")
        if data is None:
            return
        self.n_last = (data, rid)  # P looks at it only when it answers (op presp)

    def deliver_to_n(self, j, replayed):
        """P's datagram j arrives at N."""
        osc = self.osc
        rec = self.p_reqs[j]
        was_init = self.N.recipient_replay_window.is_initialized()
        try:
            msg, rid = self.N.unprotect(self.env.from_wire(rec["wire"]))
        except osc.ReplayErrorWithEcho as e:
            self.probe("echo_demanded")
            if rec["echo"] is not None:
                self.probe("stale_echo_rejected")
            if self.boundaries and self.boundaries[-1] == "clean" and self.window_initialized_at_stop:
                self.anomaly("echo-demanded-after-clean-stop", j)
            self.log.append(("deliver", j, "echo"))
            # the stack renders the error: a protected 4.01 with the Echo value
            try:
                outer = e.to_message()
            except osc.ContextUnavailable:
                self.probe("exhausted")
                return
            except OSError as e3:
                if not self.fs.io_fired:
                    self.anomaly("protect-unexpected-oserror", "%s: %s" % (type(e3).__name__, e3))
                return
            except (self.F.Crash, self.F.SeamMissing):
                raise
            except Exception as e3:
                self.anomaly("protect-unexpected-exception", "%s: %s" % (type(e3).__name__, e3))
                return
            data = self.wire(outer)
            self.issued(data, "echo-4.01", j)
            try:
                resp, _ = self.P.unprotect(self.env.from_wire(data), rec["rid"])
                if resp.opt.echo is not None:
                    self.p_echoes.append(resp.opt.echo)
            except osc.ProtectionInvalid as e2:
                self.anomaly("peer-cannot-unprotect-echo-response", type(e2).__name__)
            return
        except osc.ProtectionInvalid as e:
            self.log.append(("deliver", j, "rejected", type(e).__name__))
            if replayed and rec["accepted"]:
                if self.inc != rec["accepted"][-1][0]:
                    self.probe("replay_rejected_" + self.how(rec["accepted"][-1][0]).replace("-", "_"))
                else:
                    self.probe("replay_rejected_within_incarnation")
            return
        except OSError as e:
            if not self.fs.io_fired:
                self.anomaly("unprotect-unexpected-oserror", "%s: %s" % (type(e).__name__, e))
            self.probe("unprotect_failed_with_oserror")
            self.log.append(("deliver", j, "oserror", e.errno))
            return
        except (self.F.Crash, self.F.SeamMissing):
            raise
        except Exception as e:
            self.anomaly("unprotect-unexpected-exception", "%s: %s" % (type(e).__name__, e))
            self.log.append(("deliver", j, "exception", type(e).__name__))
            return
        # unprotect returned a message
        if msg.payload != rec["payload"]:
            self.anomaly("payload-mismatch", j)
        if rec["accepted"]:
            first_inc, first_op = rec["accepted"][0]
            self.violation("C13/replay-accepted-%s" % self.how(rec["accepted"][-1][0]),
                           {"request": j, "seq": rec["seq"], "first_accepted": {"inc": first_inc, "op": first_op},
                            "boundaries": self.boundaries[rec["accepted"][-1][0]:self.inc],
                            "carried_echo": rec["echo"]})
        if not was_init:
            self.probe("echo_recovered")
        rec["accepted"].append((self.inc, self.opidx))
        self.accepted_inc.append((j, rid))
        self.log.append(("deliver", j, "accepted"))

    def op_req(self, mode):
        from aiocoap import Message, POST

        echo = None
        if mode == "echo" and self.p_echoes:
            echo = self.p_echoes[-1]
        elif mode == "stale" and self.p_echoes:
            echo = self.p_echoes[0]
        j = len(self.p_reqs)
        payload = b"req-%d" % j
        m = Message(code=POST, uri_path=["p"], payload=payload)
        if echo is not None:
            m.opt.echo = echo
        outer, prid = self.P.protect(m)
        data = self.wire(outer)
        o = self.option_of(data)
        self.p_reqs.append({"wire": data, "seq": int.from_bytes(o["piv"], "big"), "rid": prid, "accepted": [],
                            "echo": None if echo is None else echo.hex(), "payload": payload})
        self.deliver_to_n(j, replayed=False)

    def op_replay(self, j):
        if not self.p_reqs:
            self.log.append(("replay", "skip"))
            return
        self.deliver_to_n(j % len(self.p_reqs), replayed=True)

    def op_resp(self, k):
        from aiocoap import Message, CONTENT

        if not self.accepted_inc:
            self.log.append(("resp", "skip"))
            return
        j, rid = self.accepted_inc[-1 - (k % len(self.accepted_inc))]
        self.n_protect(Message(code=CONTENT, payload=b"resp-%d" % j), "response", request_id=rid, req_j=j)

    def op_presp(self, own):
        from aiocoap import Message, CONTENT

        if self.n_last is None:
            self.log.append(("presp", "skip"))
            return
        data, nrid = self.n_last
        self.n_last = None
        try:
            _, prid = self.P.unprotect(self.env.from_wire(data))
        except self.osc.ProtectionInvalid:
            # P's own replay window refuses a number it has seen (N re-issued it, or an older one)
            self.probe("peer_rejected_request")
            self.log.append(("presp", "peer-rejected"))
            return
        if own:
            prid.get_reusable_kid_and_piv()
        outer, _ = self.P.protect(Message(code=CONTENT, payload=b"presp"), prid)
        wire = self.wire(outer)
        was = self.N.recipient_replay_window.is_initialized()
        try:
            self.N.unprotect(self.env.from_wire(wire), nrid)
        except self.osc.ProtectionInvalid as e:
            self.anomaly("n-cannot-unprotect-response", type(e).__name__)
            return
        except OSError as e:
            if not self.fs.io_fired:
                self.anomaly("unprotect-unexpected-oserror", "%s: %s" % (type(e).__name__, e))
            return
        if not was and self.N.recipient_replay_window.is_initialized():
            self.probe("window_initialized_from_response")
        self.log.append(("presp", own, "ok"))

    def do(self, op):
        k = op[0]
        if k == "nreq":
            self.op_nreq()
        elif k == "burst":
            for _ in range(int(op[1])):
                self.op_nreq()
        elif k == "req":
            self.op_req(op[1])
        elif k == "replay":
            self.op_replay(int(op[1]))
        elif k == "replayall":
            for j in range(len(self.p_reqs)):
                self.op_replay(j)
        elif k == "resp":
            self.op_resp(int(op[1]))
        elif k == "presp":
            self.op_presp(bool(op[1]))
        elif k == "stop":
            self.clean_stop()
        elif k == "handover":
            self.handover(int(op[1]), int(op[2]) if len(op) > 2 else 0)
        elif k == "crash":
            self.stats["op_crash"] += 1
            self.fs.die()
            raise self.F.Crash()
        else:
            raise ValueError("unknown op %r" % (op,))

    def run(self):
        F = self.F
        ops = list(self.scn.get("ops") or []) + EPILOGUE
        with F.Seams(self.osc, self.fs, self.secrets, clock=self.clock):
            try:
                try:
                    first = self.fs.step + 1
                    self.load()
                    self.op_steps.append((-1, first, self.fs.step))
                    if self.scn.get("loop"):
                        self.run_in_loop(ops)
                        ops = []
                    for i, op in enumerate(ops):
                        if self.ended or self.N is None:
                            break
                        self.opidx = i
                        first = self.fs.step + 1
                        self.log.append(("op", i, op[0]))
                        try:
                            self.do(op)
                        except F.Crash:
                            self.after_crash("op")
                        self.op_steps.append((i, first, self.fs.step))
                    # end of the observation: the last incarnation stops cleanly (not part of the oracle)
                except F.Crash:
                    # a crash outside any operation cannot happen; treat as harness problem
                    raise AssertionError("Crash escaped the operation loop")
            finally:
                for obj in self.objs:
                    self.discard(obj)
        self.stats["io_error"] = len(self.fs.io_fired)
        self.stats["crash_point"] = 1 if self.fs.crashes else 0
        if self.fs.io_fired:
            self.probe("io_error_fired", len(self.fs.io_fired))
        return self


    def run_in_loop(self, ops):
        """The operations of every incarnation run inside a coroutine on an event loop of the incarnation's own (no
        I/O, no timers: callbacks run first-in first-out, nothing is left to chance); it runs its queued callbacks only
        where the scenario says the application awaits.  A crash ends the coroutine and the loop is closed with
        whatever was still queued."""
        import asyncio
        F = self.F
        yields = set(self.scn["loop"].get("yield_after") or [])
        state = {"i": 0}
        self.probe("inside_event_loop")

        def incarnation_over():
            return state["i"] >= len(ops) or self.ended or self.N is None

        while not incarnation_over():
            loop = asyncio.new_event_loop()
            in_callbacks = []
            loop.set_exception_handler(lambda l, ctx: in_callbacks.append(ctx.get("exception")))

            async def incarnation():
                while not incarnation_over():
                    i = state["i"]
                    op = ops[i]
                    state["i"] = i + 1
                    self.opidx = i
                    first = self.fs.step + 1
                    self.log.append(("op", i, op[0]))
                    try:
                        self.do(op)
                    except F.Crash:
                        return "crash"
                    finally:
                        self.op_steps.append((i, first, self.fs.step))
                    if i in yields or i >= len(ops) - len(EPILOGUE):
                        await asyncio.sleep(0)
                        if any(isinstance(e, F.Crash) for e in in_callbacks):
                            return "crash"  # died inside something the loop ran for the library
                        if in_callbacks:
                            self.probe("exception_in_loop_callback")
                            del in_callbacks[:]
                return None

            try:
                how = loop.run_until_complete(incarnation())
            finally:
                loop.close()  # what was queued and has not run dies with the process
            if how == "crash":
                self.after_crash("op")


# ------------------------------------------------------------------ crash plans


def store_groups(journal):
    """[(first_step, last_step)] of every mkstemp..replace group."""
    groups = []
    start = None
    for (i, op, path, extra) in journal:
        if op == "mkstemp":
            start = i
        elif op == "replace" and start is not None:
            groups.append((start, i))
            start = None
    if start is not None:
        groups.append((start, journal[-1][0]))
    return groups


def all_points(journal):
    return [[[i, -1]] for (i, op, p, x) in journal]


def torn_plans(journal, r, per_flush):
    out = []
    for (i, op, p, n) in journal:
        if op == "flush" and isinstance(n, int) and n > 1:
            cands = [0, 1, n // 2, n - 1, 17, 18, 19, 20]
            cands = sorted({c for c in cands if 0 <= c < n})
            if r is not None:
                cands = r.sample(cands, min(per_flush, len(cands)))
            else:
                cands = cands[:per_flush]
            for c in sorted(cands):
                out.append([[i, c]])
    return out


def plans_for(scn, journal, decider):
    spec = scn.get("crash") or {"mode": "none"}
    mode = spec.get("mode", "none")
    k = len(journal)
    if mode == "none" or k == 0:
        return []
    if mode == "all" and not spec.get("double"):
        plans = all_points(journal)
        if spec.get("torn"):
            plans += torn_plans(journal, None, int(spec["torn"]))
        return plans

    def gen(r):
        if mode == "all":
            plans = all_points(journal)
        else:
            must = set()
            groups = store_groups(journal)
            for g in (groups[:1] + groups[-1:]):
                must.update(range(g[0], g[1] + 2))  # including the step right after the replace
            steps = [i for (i, op, p, x) in journal]
            rest = [i for i in steps if i not in must]
            pick = set(r.sample(rest, min(int(spec.get("n", 10)), len(rest))))
            plans = [[[i, -1]] for i in steps if i in must or i in pick]
        if spec.get("torn"):
            t = torn_plans(journal, r, 1 if mode != "all" else int(spec["torn"]))
            if mode != "all":
                t = r.sample(t, min(2 * int(spec["torn"]), len(t)))
                t.sort()
            plans += t
        for _ in range(int(spec.get("double") or 0)):
            i = r.randint(1, k)
            plans.append([[i, -1], [i + r.randint(1, 12), -1]])
        return plans

    return decider.get("crash_points", [], gen)


# ------------------------------------------------------------------ execution


def execute(sim, scn):
    from simkit import oscore_env as env

    osc = env.prepare()
    run_seed = scn.get("run_seed", 0)
    base = Run(osc, scn, None, run_seed).run()
    runs = [base]
    if "crash_at" in scn:
        plans = scn["crash_at"]
    else:
        plans = plans_for(scn, base.fs.journal, sim.decider)
    for plan in plans:
        runs.append(Run(osc, scn, plan, run_seed).run())

    faults = {}
    h = hashlib.blake2b(digest_size=8)
    h.update(repr([op[0] for op in scn.get("ops") or []]).encode())
    h.update(repr([j[1] for j in base.fs.journal]).encode())
    h.update(repr(plans).encode())
    for r in runs:
        sim.log("run", json.dumps(r.plan), len(r.fs.journal), [list(x) for x in r.fs.crashes],
                [list(x) for x in r.fs.io_fired])
        for e in r.log:
            sim.log("ev", *e)
        for name, n in r.probes.items():
            sim.probe(name, n)
        for (kind, detail) in r.violations:
            sim.log("violation", kind)
            sim.violation(kind, detail)
        for (kind, detail) in r.anomalies:
            sim.anomaly(kind, detail)
        for k, v in r.stats.items():
            if v:
                faults[k] = faults.get(k, 0) + v
    if scn.get("powerloss"):
        # exploratory mode: never gates
        for v in sim.violations:
            sim.anomaly("powerloss/" + v["kind"], json.dumps(v["detail"])[:200])
        del sim.violations[:]
    sim.probe("histories")
    sim.probe("history_executions", len(runs))
    sim.probe("journal_steps_baseline", len(base.fs.journal))
    sim.extra_faults = faults
    sim.nontrivial = bool(faults)
    sim.signature = h.hexdigest()


def evidence_extra(total):
    f = total["faults"]
    p = total["probes"]
    return {
        "crash_points_enumerated": f.get("crash_point", 0),
        "crashes_total_including_op_level": f.get("crash", 0),
        "torn_writes_enumerated": f.get("torn_write", 0),
        "io_errors_fired": f.get("io_error", 0),
        "clean_stops": f.get("clean_stop", 0),
        "histories": p.get("histories", 0),
        "history_executions": p.get("history_executions", 0),
        "journal_steps_baseline_total": p.get("journal_steps_baseline", 0),
    }


# ------------------------------------------------------------------ minimisation support


def _baseline_journal(scn):
    from simkit import oscore_env as env

    osc = env.prepare()
    c = {k: v for k, v in scn.items() if k != "crash_at"}
    return Run(osc, c, None, scn.get("run_seed", 0)).run().fs.journal


def shrink(scn):
    # 1. pin the crash plan
    plans = scn.get("crash_at")
    if plans is None:
        dec = scn.get("decisions") or {}
        if "crash_points" in dec:
            plans = dec["crash_points"]
        elif (scn.get("crash") or {}).get("mode") == "all":
            from simkit.decide import Decider

            plans = plans_for(scn, _baseline_journal(scn), Decider(0, {}))
        else:
            plans = []
        c = dict(scn)
        c["crash_at"] = []
        yield c  # no crash needed at all?
    if len(plans) > 1:
        half = len(plans) // 2
        for part in (plans[:half], plans[half:]):
            c = dict(scn)
            c["crash_at"] = part
            yield c
        if len(plans) <= 8:
            for p in plans:
                c = dict(scn)
                c["crash_at"] = [p]
                yield c
    elif len(plans) == 1 and "crash_at" not in scn:
        c = dict(scn)
        c["crash_at"] = plans
        yield c
    if len(plans) == 1:
        p = plans[0]
        if len(p) > 1:
            for i in range(len(p)):
                c = dict(scn)
                c["crash_at"] = [p[:i] + p[i + 1:]]
                yield c
        if any(pt[1] >= 0 for pt in p):
            c = dict(scn)
            c["crash_at"] = [[[pt[0], -1] for pt in p]]
            yield c
        # 2. remove one operation and look for the crash point again (all single points of the new journal)
        if len(p) == 1 and "crash_at" in scn:
            ops = scn.get("ops") or []
            for i in range(len(ops)):
                c = dict(scn)
                c["ops"] = ops[:i] + ops[i + 1:]
                t = p[0][1]
                c["crash_at"] = [[[s[0], t]] for s in _baseline_journal(c) if t < 0 or s[1] == "flush"]
                if c["crash_at"]:
                    yield c
    # 3. smaller numbers
    ops = scn.get("ops") or []
    for i, op in enumerate(ops):
        if op[0] == "burst" and op[1] > 1:
            for n in sorted({op[1] // 2, op[1] - 1}):
                if n >= 1:
                    c = dict(scn)
                    c["ops"] = ops[:i] + [["burst", n]] + ops[i + 1:]
                    if "crash_at" in scn and len(plans) == 1 and len(plans[0]) == 1:
                        t = plans[0][0][1]
                        c["crash_at"] = [[[s[0], t]] for s in _baseline_journal(c) if t < 0 or s[1] == "flush"]
                    yield c
    rules = scn.get("io_errors") or []
    if len(rules) > 1:
        for i in range(len(rules)):
            c = dict(scn)
            c["io_errors"] = rules[:i] + rules[i + 1:]
            yield c
    for i, r in enumerate(rules):
        if r.get("count", 1) > 1:
            c = dict(scn)
            c["io_errors"] = rules[:i] + [dict(r, count=1)] + rules[i + 1:]
            yield c
    if scn.get("init") is not None:
        c = dict(scn)
        c["init"] = None
        yield c
    ctx = scn["ctx"]
    simple = _shipped_ctx(window=ctx["window"], start=ctx.get("chunk_start"), limit=ctx.get("chunk_limit"))
    if ctx != simple:
        c = dict(scn)
        c["ctx"] = simple
        yield c
