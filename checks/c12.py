"""C12 -- OSCORE replay protection: a protected request is accepted at most once.

One sender S and one receiver R (in-memory contexts of the library, matching
keys).  S protects a list of requests with increasing sequence numbers (set
explicitly, so jumps and numbers near 2^40 occur); the scenario's `ops` are the
arrivals at R: genuine datagrams in any order and multiplicity, forgeries
derived from them (altered partial IV, altered ciphertext, both, or re-keyed
by a context with other keys) and `restart` (R loses its replay state: a new
receiver object with an uninitialised window and a new Echo value).

Every scenario is executed twice on separate receivers: once as given and once
with the forgeries left out (metamorphic reference).
"""

import hashlib
import itertools
import json

from simkit import refcodec as rc

PROPERTY = "C12"
LEVEL = "exploration"
RUNS = {"quick": 3000, "thorough": 80000}
BUDGET = {"quick": 80, "thorough": 3000}
USES_AIOCOAP_NET = False
RULE = ("seeded scenarios: window size 1-64, receiver initialised or uninitialised (Echo recovery), 3-12 genuine "
        "requests with consecutive numbers, gaps, jumps beyond the window and numbers near 2^8/2^16/2^24/2^32/2^40, "
        "5-40 arrivals in random order with repeats, arrivals during which recording the window change fails, forgeries with valid-looking numbers (next, in-window unseen, "
        "just beyond the window, far ahead, equal to a genuine one) placed before, between and after the genuine "
        "arrivals, 0-2 state losses with fresh/stale/bogus Echo values; systematic part: every arrival sequence "
        "with repetition over 4 (thorough: 5) numbers (dense and window-edge sets) for window sizes 1-8. Each "
        "scenario runs twice (with and without the forgeries). Non-trivial = a duplicate, an out-of-window number, "
        "a forgery or a state loss occurred; distinct = distinct hash of (window size, relative number pattern, "
        "arrival kinds, verdicts).")
COMPONENTS_REAL = ["aiocoap.oscore.ReplayWindow (is_valid, strike_out, initialize_*)",
                   "aiocoap.oscore.CanUnprotect.unprotect (window check, strike-out after decryption, Echo recovery)",
                   "aiocoap.oscore.CanProtect.protect", "aiocoap.oscore.ReplayErrorWithEcho.to_message",
                   "aiocoap.message (encode/decode)", "cryptography 38.0.4",
                   "aiocoap.oscore.SimpleGroupContext / _GroupContextAspect, Ed25519 countersignatures (group family)"]
COMPONENTS_STUB = ["cbor2 (deterministic stand-in)", "network (byte strings handed over directly)",
                   "in-memory security contexts (post_seqnoincrease is a no-op)", "Echo values (from the scenario)",
                   "Ed25519 key generation of the group family (seeded)"]
ASSUMPTIONS = ["the sender's numbers increase in creation order and a request carrying the Echo value of receiver "
               "incarnation i is created during incarnation i (it cannot arrive earlier)",
               "no assumption about the in-window policy for unseen numbers: only 'at most once', 'never below the "
               "window', 'always above everything accepted' and the forgery-independence of every verdict are checked",
               "a forgery that makes unprotect raise something other than a protection error is C11's business and "
               "counted as an anomaly here"]
EXPECTED_PROBES = ["fs_io_error_fired", "own_exchange_while_uninitialized", "accepted", "duplicate_rejected", "below_window_rejected", "jump_beyond_window", "forgery_ct",
                   "forgery_piv", "forgery_rekey", "forgery_pivct", "forgery_before_genuine", "restart",
                   "echo_challenge", "echo_recovered", "stale_echo_rejected", "bogus_echo_rejected", "near_max_seqno",
                   "in_window_unseen_accepted", "uninitialized_start", "window_size_1",
                   "store_failure_during_strike_out", "store_failure_on_jump", "file_backed_state_loss", "fs_echo_recovered"]

MAX_SEQNO = 2 ** 40 - 1


# ------------------------------------------------------------------ generation


def gen_ctx(r):
    alg = r.choice(["AES-CCM-16-64-128", "AES-CCM-16-64-128", "AES-CCM-64-64-128", "ChaCha20/Poly1305", "A128GCM"])
    maxid = 1 if "CCM-64" in alg else 6
    while True:
        sid, rid = r.randbytes(r.randint(0, maxid)), r.randbytes(r.randint(0, maxid))
        if sid != rid:
            break
    return {"alg": alg, "sid": sid.hex(), "rid": rid.hex(),
            "idctx": r.randbytes(4).hex() if r.chance(0.2) else None, "secret": r.randbytes(16).hex(),
            "salt": r.randbytes(r.choice([0, 8])).hex(),
            "window": r.choice([1, 1, 2, 2, 3, 4, 5, 7, 8, 16, 31, 32, 32, 33, 64]),
            "initialized": not r.chance(0.35)}


def gen_fs(r):
    """State loss as it really happens: a file-backed context (the library's FilesystemSecurityContext on the simulated
    file system of C13) that is stopped uncleanly again and again; the Echo values are the ones the library issues
    itself in each lifetime, the host's wall clock moves as the scenario says (not at all by default)."""
    from . import c13
    ops = []
    for _ in range(r.randint(4, 16)):
        k = r.weighted([(8, "req"), (5, "replay"), (4, "crash"), (1, "stop"), (2, "replayall"), (2, "nreq")])
        if k == "req":
            ops.append(["req", r.weighted([(3, "plain"), (5, "echo"), (2, "stale")])])
        elif k == "replay":
            ops.append(["replay", r.randint(0, 20)])
        else:
            ops.append([k])
    f = {"cfg": "crash", "ctx": c13.gen_ctx(r, simple=r.chance(0.5)),
         "init": r.choice([None, {"next": r.choice([0, 7, 300]), "received": "unknown"},
                           {"next": r.choice([0, 7]), "received": {"index": 0, "bitfield": 0}}]),
         "ops": ops, "crash": {"mode": "none"},
         "wall_steps": [r.choice([0.0, 0.0, 0.0, 0.4, 1.0, 3.0, 3600.0, -1.0, -3600.0]) for _ in range(r.randint(1, 3))]}
    if r.chance(0.3):
        # recording the state fails now and then (full disk, I/O error): the request during which that happens may be
        # lost, but what the files say must never make a later lifetime accept again what an earlier one accepted
        f["cfg"] = "io"
        rules = []
        for _ in range(r.choice([1, 1, 2])):
            op, en = r.choice(c13.IO_KINDS)
            rules.append({"op": op, "nth": r.choice([0, 0, 1, 1, 2, 3, 4, 6]), "count": r.choice([1, 1, 1, 2, 3]), "errno": en})
        f["io_errors"] = rules
    return {"fs": f}


def gen_group(r):
    """Group OSCORE, group mode: every member can derive the symmetric keys, only the countersignature says who sent a
    request.  A member M forges requests under A's sender ID (they decrypt, A never signed them); a forwarder damages
    the signature of a genuine request.  The server keeps one replay window per sender."""
    n = r.randint(3, 14)
    ops = []
    pool = [0, 1, 2, 3, 5, 8, 31, 32, 33, 40, 64, 100, 1000, 2 ** 20, 2 ** 40 - 2]
    for _ in range(n):
        seq = r.choice(pool) if r.chance(0.7) else r.randint(0, 80)
        k = r.weighted([(5, "genuine"), (3, "forged"), (2, "sigflip"), (1, "ctflip")])
        ops.append({"k": k, "seq": seq, "bit": r.randint(0, 511)})
        if k != "genuine" and r.chance(0.7):
            # ... and then the genuine request with that very number
            ops.append({"k": "genuine", "seq": seq, "bit": 0})
    return {"group": {"ops": ops, "key_seed": r.randint(0, 2 ** 32), "alg": r.choice(["default", "default", "A128CBC"])}}


def execute_group(sim, scn):
    from simkit import oscore_env as env

    osc = env.prepare()
    import aiocoap
    from aiocoap.message import Direction

    g = scn["group"]
    sig = hashlib.blake2b(digest_size=8)
    alg_aead = osc.algorithms[osc.DEFAULT_ALGORITHM]
    alg_group_enc = osc.algorithms.get("A128CBC", alg_aead) if g.get("alg") == "A128CBC" else alg_aead
    hashfun = osc.hashfunctions[osc.DEFAULT_HASHFUNCTION]
    alg_sign = osc.Ed25519()
    alg_pairwise = osc.EcdhSsHkdf256()
    counter = [0]

    def seeded_key():
        counter[0] += 1
        return hashlib.blake2b(b"%d:%d" % (g["key_seed"], counter[0]), digest_size=32).digest()
    alg_sign._generate = seeded_key  # (key generation is the one draw from the system's randomness here)
    ID_S, ID_A, ID_M = b"\x0a", b"\x01", b"\x02"

    def member(sender_id, private_key, cred, peers):
        return osc.SimpleGroupContext(alg_aead, hashfun, alg_sign, alg_group_enc, alg_pairwise, b"G", bytes(range(64)), b"PoCl4",
                                      sender_id, private_key, cred, peers, b"gm credential", group_manager_cred_fmt="dummy")

    keys = {i: alg_sign.generate_with_ccs() for i in (ID_S, ID_A, ID_M)}
    creds = {i: c for i, (_, c) in keys.items()}
    server = member(ID_S, keys[ID_S][0], creds[ID_S], {ID_A: creds[ID_A], ID_M: creds[ID_M]})
    a = member(ID_A, keys[ID_A][0], creds[ID_A], {ID_S: creds[ID_S]})
    # what M can set up from what every member has plus its own private key: sends under A's ID, with A's public
    # credential in the authenticated data (as the server will assume), signed with M's key
    m_as_a = member(ID_A, keys[ID_M][0], creds[ID_M], {ID_S: creds[ID_S]})
    m_as_a.sender_auth_cred = creds[ID_A]
    sim.probe("group_mode")

    def request(sender, seq, payload):
        sender.sender_sequence_number = seq
        plain = aiocoap.Message(code=aiocoap.POST, uri_path=["r"], payload=payload)
        plain.direction = Direction.OUTGOING
        protected, _ = sender.protect(plain)
        protected.mtype, protected.mid, protected.token = aiocoap.NON, 0x1234, b"tk"
        return protected.encode()

    def serve(data):
        arrived = aiocoap.Message.decode(data)
        arrived.direction = Direction.INCOMING
        unprotected = osc.verify_start(arrived)
        ctx = server.get_oscore_context_for(unprotected)
        message, _ = ctx.unprotect(arrived)
        return message

    def window():
        return dict(server.recipient_replay_windows[ID_A].persist())

    # reference model of the window A's requests meet (RFC 8613 7.4 with the library's window size)
    W = server.recipient_replay_windows[ID_A]._size if hasattr(server.recipient_replay_windows[ID_A], "_size") else 32
    seen = set()
    top = [-1]

    def model_valid(seq):
        if seq in seen:
            return False
        return not (top[0] >= 0 and seq <= top[0] - W)

    for i, op in enumerate(g["ops"]):
        seq, k = int(op["seq"]), op["k"]
        ident = {"op": i, "kind": k, "seq": seq, "group_enc": g.get("alg")}
        sig.update(("%s:%d;" % (k, seq)).encode())
        if k == "genuine":
            data = request(a, seq, b"genuine-%d" % i)
            expect = model_valid(seq)
            try:
                msg = serve(data)
            except (osc.ProtectionInvalid, AttributeError) as e:
                # (AttributeError: a replay on a group context trips over a missing attribute instead of raising
                # ReplayError -- refused all the same; noted)
                if isinstance(e, AttributeError):
                    sim.anomaly("replay-on-group-context-raises-AttributeError", str(e)[:80])
                if expect:
                    sim.violation("C12/genuine-request-refused", dict(ident, error="%s: %s" % (type(e).__name__, str(e)[:80]),
                                                                     seen=sorted(seen)[-6:], top=top[0]))
                else:
                    sim.probe("group_replay_refused")
                continue
            if not expect:
                sim.violation("C12/replay-accepted" if seq in seen else "C12/old-number-accepted", dict(ident, top=top[0]))
            if msg.payload != b"genuine-%d" % i:
                sim.violation("C12/wrong-message-delivered", dict(ident, payload=msg.payload.hex()[:40]))
            seen.add(seq)
            top[0] = max(top[0], seq)
            sim.probe("group_genuine_accepted")
            continue
        if k == "forged":
            data = request(m_as_a, seq, b"forged-%d" % i)
        else:
            data = bytearray(request(a, seq, b"damaged-%d" % i))
            sig_len = alg_sign.signature_length
            if k == "sigflip":
                pos = len(data) - 1 - (op["bit"] // 8) % sig_len  # inside the trailing countersignature
            else:
                body = len(data) - sig_len
                pos = body - 1 - (op["bit"] // 8) % 8  # inside the ciphertext / tag in front of it
            data[pos] ^= 1 << (op["bit"] % 8)
            data = bytes(data)
        before = window()
        sim.extra_n = getattr(sim, "extra_n", 0) + 1
        try:
            serve(data)
        except (osc.ProtectionInvalid, AttributeError):
            sim.probe("group_%s_refused" % k)
        except Exception as e:
            sim.anomaly("unprotect-raises-%s" % type(e).__name__, str(e)[:80])
        else:
            sim.violation("C12/unauthentic-request-accepted", ident)
            continue
        after = window()
        if after != before and model_valid(seq):
            sim.violation("C12/forgery-marks-window", dict(ident, before=before, after=after))
    sim.nontrivial = True
    sim.extra_faults = {"forged_or_damaged_group_request": getattr(sim, "extra_n", 0)}
    sim.signature = sig.hexdigest()


def gen(r, tier):
    if r.chance(0.06):
        return gen_group(r)
    if r.chance(0.12):
        return gen_fs(r)
    ctx = gen_ctx(r)
    W = ctx["window"]
    restarts = r.choice([0, 0, 0, 1, 1, 2]) if not ctx["initialized"] or r.chance(0.3) else 0
    echoes = [r.randbytes(8).hex() for _ in range(restarts + 1)]
    ctx["echoes"] = echoes
    ctx["bogus_echo"] = r.randbytes(8).hex()
    nmsg = r.randint(3, 12)
    base = r.choice([0, 0, 0, 1, 250, 65530, 2 ** 24 - 3, 2 ** 32 - 5, MAX_SEQNO - 1 - r.randint(nmsg, 3 * nmsg + 80),
                     r.randint(0, 2 ** 39)])
    seq = base
    msgs = []
    for k in range(nmsg):
        if k:
            step = r.weighted([(10, 1), (3, 2), (2, r.randint(2, W + 2)), (2, W), (2, W + 1), (1, W - 1 or 1),
                               (1, r.randint(W + 1, 4 * W + 70))])
            seq += step
        if seq >= MAX_SEQNO:
            break
        created = min(restarts, (k * (restarts + 1)) // nmsg)
        x = r.random()
        if x < 0.45:
            echo = None
        elif x < 0.8:
            echo = created
        elif x < 0.93 and created > 0:
            echo = r.randint(0, created - 1)
        else:
            echo = -1
        msgs.append({"seq": seq, "created": created, "echo": echo})
    ops = []
    for phase in range(restarts + 1):
        avail = [k for k, m in enumerate(msgs) if m["created"] <= phase]
        if not avail:
            avail = [0]
        n = r.randint(3, max(4, 40 // (restarts + 1)))
        for _ in range(n):
            if r.chance(0.3):
                k = r.choice(avail)
                kind = r.weighted([(3, "ct"), (4, "piv"), (2, "rekey"), (1, "pivct")])
                if kind == "ct":
                    ops.append(["f", k, "ct", r.randint(0, 2000)])
                else:
                    s = msgs[k]["seq"]
                    top = max(m["seq"] for m in msgs)
                    v = r.choice([s, s + 1, s - 1, top + 1, top + W, top + W + 1, s + W - 1, s + W, top + r.randint(1, 5 * W),
                                  r.choice(msgs)["seq"]])
                    v = max(0, min(MAX_SEQNO - 1, v))
                    ops.append(["f", k, kind, v])
            elif r.chance(0.12):
                ops.append(["own"])
            else:
                # recent messages are more likely, repeats are frequent
                k = avail[-1 - min(len(avail) - 1, int(r.random() ** 2 * len(avail)))] if r.chance(0.6) else r.choice(avail)
                if r.chance(0.08):
                    # recording the window change fails (persistent contexts write it to disk) while this very
                    # request is being accepted: the request fails, whatever the window then holds must still be safe
                    ops.append(["g", k, "cbfail"])
                else:
                    ops.append(["g", k])
        if phase < restarts:
            ops.append(["restart"])
    return {"ctx": ctx, "msgs": msgs, "ops": ops}


def _sys_ctx(W):
    return {"alg": "AES-CCM-16-64-128", "sid": "01", "rid": "02", "idctx": None,
            "secret": "0102030405060708090a0b0c0d0e0f10", "salt": "", "window": W, "initialized": True,
            "echoes": ["6563686f2d696e30"], "bogus_echo": "626f6775732d6563"}


def systematic(tier):
    out = []
    if tier == "thorough":
        windows, L = range(1, 9), 5
    else:
        windows, L = (1, 2, 3, 4, 8), 4
    for W in windows:
        sets = [list(range(L))]
        edge = sorted({0, 1, max(0, W - 1), W, W + 1, W + 2, 2 * W, 2 * W + 1})[:L + 2]
        edge = sorted(set(edge[:2] + edge[-(L - 2):]))
        if edge not in sets and len(edge) == L:
            sets.append(edge)
        for nums in sets:
            msgs = [{"seq": n, "created": 0, "echo": None} for n in nums]
            # one scenario per first arrival; ["reset"] starts an independent experiment on a fresh receiver
            for first in range(len(nums)):
                ops = []
                for rest in itertools.product(range(len(nums)), repeat=L - 1):
                    ops.append(["reset"])
                    ops.extend(["g", k] for k in (first,) + rest)
                out.append({"ctx": _sys_ctx(W), "msgs": msgs, "ops": ops})
    # state lost over and over: every lifetime challenges with its own Echo value; what one lifetime accepted (the
    # request that carried that lifetime's Echo value included) is offered again to each later one
    fsctx = {"alg": "AES-CCM-16-64-128", "sid": "01", "rid": "02", "idctx": None, "secret": "000102030405060708090a0b0c0d0e0f",
             "salt": "", "window": 32, "chunk_start": None, "chunk_limit": None}
    for steps in ([0.0], [0.4], [1.0], [-3600.0], [3600.0, -3600.0]):
        for tail in ([["replayall"]], [["req", "stale"], ["replayall"]], [["req", "plain"], ["replayall"], ["req", "echo"], ["replayall"]]):
            out.append({"fs": {"cfg": "crash", "ctx": fsctx, "init": {"next": 0, "received": "unknown"},
                               "ops": [["req", "plain"], ["req", "echo"], ["req", "plain"], ["crash"]] + tail +
                                      [["req", "plain"], ["req", "echo"], ["crash"]] + tail,
                               "crash": {"mode": "none"}, "wall_steps": steps}})
    return out


def corpus():
    out = []
    # the doctest of ReplayWindow as arrivals, plus forgeries on the numbers that follow
    msgs = [{"seq": n, "created": 0, "echo": None} for n in (0, 1, 2, 3, 4, 5, 35, 36, 37)]
    out.append({"ctx": _sys_ctx(32), "msgs": msgs,
                "ops": [["g", 5], ["g", 3], ["g", 5], ["g", 0], ["g", 1], ["g", 2], ["g", 1], ["f", 6, "ct", 3],
                        ["f", 6, "piv", 36], ["g", 6], ["g", 4], ["f", 7, "rekey", 36], ["g", 7], ["g", 4], ["g", 8],
                        ["g", 6]], "name": "doctest-with-forgeries"})
    # Echo recovery over two state losses, stale and bogus values, replay of the recovering request
    c = dict(_sys_ctx(4), initialized=False, echoes=["1111111111111111", "2222222222222222", "3333333333333333"])
    msgs = [{"seq": 10, "created": 0, "echo": None}, {"seq": 11, "created": 0, "echo": -1},
            {"seq": 12, "created": 0, "echo": 0}, {"seq": 13, "created": 0, "echo": None},
            {"seq": 14, "created": 1, "echo": 0}, {"seq": 15, "created": 1, "echo": 1},
            {"seq": 16, "created": 2, "echo": 1}, {"seq": 17, "created": 2, "echo": 2},
            {"seq": 18, "created": 2, "echo": None}]
    out.append({"ctx": c, "msgs": msgs,
                "ops": [["g", 0], ["g", 1], ["f", 2, "ct", 9], ["g", 2], ["g", 2], ["g", 0], ["g", 3], ["restart"],
                        ["g", 2], ["g", 3], ["g", 4], ["f", 5, "piv", 40], ["g", 5], ["g", 5], ["g", 4], ["restart"],
                        ["g", 5], ["g", 6], ["g", 8], ["g", 7], ["g", 7], ["g", 8], ["g", 6]],
                "name": "echo-recovery"})
    # numbers next to 2^40-1
    top = MAX_SEQNO - 1
    msgs = [{"seq": top - 40 + i, "created": 0, "echo": None} for i in (0, 1, 7, 8, 9, 38, 39, 40)]
    out.append({"ctx": _sys_ctx(8), "msgs": msgs,
                "ops": [["g", 0], ["g", 4], ["g", 1], ["g", 2], ["f", 7, "ct", 1], ["f", 6, "piv", top], ["g", 7],
                        ["g", 7], ["g", 6], ["g", 5], ["g", 4], ["g", 3]], "name": "near-max"})
    return out


def shrink(scn):
    if scn.get("group"):
        g = scn["group"]
        for i in range(len(g["ops"])):
            yield {"group": dict(g, ops=g["ops"][:i] + g["ops"][i + 1:])}
        return
    if scn.get("fs"):
        f = scn["fs"]
        for i in range(len(f["ops"])):
            yield {"fs": dict(f, ops=f["ops"][:i] + f["ops"][i + 1:])}
        if any(f.get("wall_steps") or []):
            yield {"fs": dict(f, wall_steps=[0.0])}
        return
    ops = scn["ops"]
    msgs = scn["msgs"]
    used = {op[1] for op in ops if op[0] in ("g", "f")}
    # drop unused messages (renumbering the references)
    for k in range(len(msgs) - 1, -1, -1):
        if k not in used and len(msgs) > 1:
            c = dict(scn)
            c["msgs"] = msgs[:k] + msgs[k + 1:]
            c["ops"] = [([op[0], op[1] - 1] + op[2:]) if op[0] in ("g", "f") and op[1] > k else op for op in ops]
            yield c
    for i, op in enumerate(ops):
        if op[0] == "f":
            c = dict(scn)
            c["ops"] = ops[:i] + [["g", op[1]]] + ops[i + 1:]
            yield c
    base = min(m["seq"] for m in msgs)
    if base > 0:
        c = dict(scn)
        c["msgs"] = [dict(m, seq=m["seq"] - base) for m in msgs]
        c["ops"] = [(op[:3] + [max(0, op[3] - base)]) if op[0] == "f" and op[2] != "ct" else op for op in ops]
        yield c
    ctx = scn["ctx"]
    for key, val in (("idctx", None), ("salt", ""), ("alg", "AES-CCM-16-64-128")):
        if ctx.get(key) != val and not (key == "alg" and max(len(ctx["sid"]), len(ctx["rid"])) > 14):
            c = dict(scn)
            c["ctx"] = dict(ctx, **{key: val})
            yield c
    for i, m in enumerate(msgs):
        if m["echo"] is not None:
            c = dict(scn)
            c["msgs"] = msgs[:i] + [dict(m, echo=None)] + msgs[i + 1:]
            yield c


# ------------------------------------------------------------------ execution


class Receiver:
    """The chain of receiver incarnations for one pass over the arrivals."""

    def __init__(self, osc, env, scn, make):
        self.osc, self.env, self.scn, self.make = osc, env, scn, make
        self.cur = 0
        c = scn["ctx"]
        self.echoes = [bytes.fromhex(e) for e in c["echoes"]]
        self.ctx = make(initialized=c["initialized"], echo=self.echoes[0])
        self.model_init = bool(c["initialized"])
        self.accepted = {}       # seq -> [(arrival index, incarnation)]
        self.highest = None
        self.failed_high = None  # highest number of an authentic arrival that failed while the window was updated
        self.verdicts = {}       # arrival index -> verdict string

    def reset(self):
        """An independent experiment: a fresh receiver in the scenario's start state."""
        c = self.scn["ctx"]
        self.cur = 0
        self.ctx = self.make(initialized=c["initialized"], echo=self.echoes[0])
        self.model_init = bool(c["initialized"])
        self.accepted = {}
        self.highest = None
        self.failed_high = None

    def restart(self):
        self.cur += 1
        echo = self.echoes[self.cur] if self.cur < len(self.echoes) else hashlib.sha256(
            b"echo%d" % self.cur + self.echoes[0]).digest()[:8]
        if self.cur >= len(self.echoes):
            self.echoes.append(echo)
        self.ctx = self.make(initialized=False, echo=echo)
        self.model_init = False

    def arrive(self, data):
        """Returns (verdict, exception or None, result)."""
        osc = self.osc
        try:
            msg, rid = self.ctx.unprotect(self.env.from_wire(data))
        except osc.ReplayErrorWithEcho as e:
            return "echo", e, None
        except osc.ReplayError as e:
            return "replay", e, None
        except osc.ProtectionInvalid as e:
            return "invalid", e, None
        except Exception as e:
            return "exc:" + type(e).__name__, e, None
        return "ok", None, (msg, rid)


def execute_fs(sim, scn):
    from simkit import oscore_env as env
    from . import c13

    osc = env.prepare()
    run = c13.Run(osc, scn["fs"], None, scn.get("run_seed", 0)).run()
    sig = hashlib.blake2b(digest_size=8)
    sig.update(repr([op[0] for op in scn["fs"]["ops"]]).encode())
    for e in run.log:
        sim.log("ev", *e)
        sig.update(repr(e[:3]).encode())
    sim.probe("file_backed_state_loss")
    if run.stats.get("io_error"):
        sim.probe("fs_io_error_fired", run.stats["io_error"])
    for name in ("echo_demanded", "echo_recovered", "stale_echo_rejected"):
        if run.probes.get(name):
            sim.probe("fs_" + name, run.probes[name])
    for (kind, detail) in run.violations:
        if kind.startswith("C13/replay-accepted"):
            sim.violation("C12/request-accepted-again-after-state-loss", dict(detail, seen_as=kind))
        else:
            sim.anomaly("c13-" + kind, json.dumps(detail)[:200])
    for (kind, detail) in run.anomalies:
        sim.anomaly(kind, detail)
    sim.nontrivial = True
    sim.extra_faults = {"state_loss": run.stats.get("op_crash", 0)} if run.stats.get("op_crash") else {}
    sim.signature = sig.hexdigest()


def execute(sim, scn):
    if scn.get("fs"):
        return execute_fs(sim, scn)
    if scn.get("group"):
        return execute_group(sim, scn)
    from simkit import oscore_env as env

    osc = env.prepare()
    from aiocoap import error

    c = scn["ctx"]
    W = int(c["window"])
    sid, rid = bytes.fromhex(c["sid"]), bytes.fromhex(c["rid"])
    idctx = None if c.get("idctx") is None else bytes.fromhex(c["idctx"])
    salt, secret = bytes.fromhex(c.get("salt") or ""), bytes.fromhex(c["secret"])
    alg = c["alg"]
    echoes = [bytes.fromhex(e) for e in c["echoes"]]
    bogus = bytes.fromhex(c.get("bogus_echo") or "00" * 8)

    S = env.make_context(osc, alg, "sha256", sid, rid, idctx, salt, secret, window=32, initialized=True)
    F = env.make_context(osc, alg, "sha256", sid, rid, idctx, salt, bytes(b ^ 0xA5 for b in secret), window=32,
                         initialized=True)

    def make_receiver(initialized, echo):
        return env.make_context(osc, alg, "sha256", rid, sid, idctx, salt, secret, window=W, initialized=initialized,
                                echo=echo)

    if W == 1:
        sim.probe("window_size_1")
    if not c["initialized"]:
        sim.probe("uninitialized_start")

    # ---- the sender creates its requests (numbers strictly increasing)
    msgs = []
    last = -1
    for k, m in enumerate(scn["msgs"]):
        seq = int(m["seq"])
        ok = last < seq < MAX_SEQNO
        rec = {"seq": seq, "created": int(m.get("created", 0)), "echo_idx": m.get("echo"), "wire": None, "rid": None,
               "echo": None, "payload": b"msg-%d" % k}
        if ok:
            last = seq
            if m.get("echo") is not None:
                e = m["echo"]
                rec["echo"] = bogus if e < 0 else (echoes[e] if e < len(echoes) else bogus)
            pm = env.build_message(rc.POST, [(rc.URI_PATH, b"r")] + ([(rc.ECHO, rec["echo"])] if rec["echo"] else []),
                                   rec["payload"])
            S.sender_sequence_number = seq
            outer, prid = S.protect(pm)
            rec["wire"] = env.to_wire(outer, k & 0xFFFF, bytes([k & 0xFF]))
            rec["rid"] = prid
            if seq >= MAX_SEQNO - 300:
                sim.probe("near_max_seqno")
        msgs.append(rec)

    def forge(op):
        _, k, kind, arg = op
        g = msgs[k % len(msgs)]
        if g["wire"] is None:
            return None
        ref = rc.decode(g["wire"])
        opt = rc.opt1(ref, rc.OSCORE)
        f = env.lenient_oscore_option(opt)
        ct = ref["payload"]
        if kind in ("ct", "pivct"):
            b = (arg if kind == "ct" else 5) % (8 * len(ct))
            new = bytearray(ct)
            new[b // 8] ^= 1 << (b % 8)
            ct = bytes(new)
        seq = g["seq"]
        if kind in ("piv", "pivct"):
            seq = int(arg)
            if kind == "piv" and seq == g["seq"]:
                seq += 1
            piv = seq.to_bytes(5, "big").lstrip(b"\0") or b"\0"
            opt = env.build_oscore_option(piv, f["kid"], f["kid_context"])
        if kind == "rekey":
            seq = int(arg)
            if not 0 <= seq < MAX_SEQNO:
                return None
            F.sender_sequence_number = seq
            outer, _ = F.protect(env.build_message(rc.POST, [(rc.URI_PATH, b"r")], b"forged"))
            return env.to_wire(outer, 0x7000 + (k & 0xFFF), b"F"), seq
        opts = [(n, v) for n, v in ref["options"] if n != rc.OSCORE] + [(rc.OSCORE, opt)]
        opts.sort(key=lambda o: o[0])
        return rc.encode(dict(ref, options=opts, payload=ct)), seq

    sig = hashlib.blake2b(digest_size=8)
    sig.update(repr((W, c["initialized"])).encode())
    nontrivial = [False]
    dups = [0]

    own_seq = [0]

    def run_pass(with_forgeries):
        R = Receiver(osc, env, scn, make_receiver)
        challenge_checked = False
        seen_genuine = set()
        for idx, op in enumerate(scn["ops"]):
            kind = op[0]
            if kind == "reset":
                R.reset()
                seen_genuine = set()
                if with_forgeries:
                    sig.update(b"|")
                    sim.probe("experiments")
                continue
            if kind == "restart":
                R.restart()
                if with_forgeries:
                    sim.probe("restart")
                    nontrivial[0] = True
                continue
            if kind == "own":
                # The receiver also acts as a client: it protects a request of its own and unprotects the peer's
                # ordinary response (which reuses the request's nonce, i.e. carries no Partial IV).  That says nothing
                # about the freshness of the PEER's requests: the replay window must be left as it is.
                try:
                    req = env.build_message(rc.GET, [(rc.URI_PATH, b"own")], b"")
                    R.ctx.sender_sequence_number = own_seq[0]  # never repeat a number towards the peer, whichever
                    own_seq[0] += 1                            # incarnation / pass this is
                    outer, reqid = R.ctx.protect(req)
                    _inner, rid_s = S.unprotect(env.from_wire(env.to_wire(outer, 0x5000 + (idx & 0x7FF), b"O")))
                    resp = env.build_message(rc.CONTENT, [], b"own-response")
                    outer2, _ = S.protect(resp, rid_s)
                    got, _ = R.ctx.unprotect(env.from_wire(env.to_wire(outer2, 0x5800 + (idx & 0x7FF), b"O")), reqid)
                    if with_forgeries:
                        sim.probe("own_exchange_while_uninitialized" if not R.model_init else "own_exchange")
                        sim.log("arrival", idx, "own-exchange", R.model_init)
                        if got.payload != b"own-response":
                            sim.anomaly("own-exchange-payload-mismatch", "")
                except Exception as e:
                    if with_forgeries:
                        sim.anomaly("own-exchange-failed-" + type(e).__name__, str(e)[:100])
                continue
            if kind == "f":
                if not with_forgeries:
                    continue
                res = forge(op)
                if res is None:
                    continue
                data, fseq = res
                nontrivial[0] = True
                sim.probe("forgery_" + op[2])
                if not any(o[0] == "g" and msgs[o[1] % len(msgs)]["seq"] == fseq for o in scn["ops"][:idx]):
                    sim.probe("forgery_before_genuine")
                v, exc, _ = R.arrive(data)
                sig.update(("f" + op[2] + v).encode())
                sim.log("arrival", idx, "forged", op[2], fseq, v)
                if v == "ok":
                    sim.violation("C12/forgery-accepted", {"arrival": idx, "op": op, "forged_seq": fseq})
                    R.accepted.setdefault(fseq, []).append((idx, R.cur))
                elif v.startswith("exc:"):
                    sim.anomaly("forgery-raised-" + v[4:], str(exc)[:100])
                continue
            # genuine arrival
            k = op[1] % len(msgs)
            g = msgs[k]
            if g["wire"] is None:
                continue
            if g["created"] > R.cur:
                if with_forgeries:
                    sim.log("arrival", idx, "not-yet-created", k)
                continue
            seq = g["seq"]
            was_init = R.model_init
            fresh_echo = g["echo"] is not None and g["echo"] == R.echoes[R.cur]
            inject_cbfail = len(op) > 2 and op[2] == "cbfail" and R.ctx.recipient_replay_window.is_initialized()
            if inject_cbfail:
                win = R.ctx.recipient_replay_window
                saved_cb = win.strike_out_callback

                def failing():
                    raise OSError(28, "injected: replay window change cannot be recorded")
                win.strike_out_callback = failing
            v, exc, result = R.arrive(g["wire"])
            if inject_cbfail:
                win.strike_out_callback = saved_cb
                if v == "exc:OSError":
                    # the request failed, which is all right; it counts as seen
                    R.verdicts[idx] = "storefail"
                    R.failed_high = seq if R.failed_high is None else max(R.failed_high, seq)
                    if with_forgeries:
                        sim.probe("store_failure_during_strike_out")
                        sim.log("arrival", idx, "genuine", k, seq, "storefail", was_init)
                        sig.update(b"gS")
                        nontrivial[0] = True
                        if R.highest is not None and seq > R.highest + W:
                            sim.probe("store_failure_on_jump")
                    continue
            R.verdicts[idx] = v
            if not with_forgeries:
                continue
            sig.update(("g%d%s" % (min(9, max(-9, seq - (R.highest if R.highest is not None else seq))), v)).encode())
            sim.log("arrival", idx, "genuine", k, seq, v, was_init)
            ident = {"arrival": idx, "message": k, "seq": seq, "window": W, "highest_accepted": R.highest,
                     "incarnation": R.cur}
            if seq in seen_genuine:
                nontrivial[0] = True
                dups[0] += 1
            seen_genuine.add(seq)
            if v == "ok":
                sim.probe("accepted")
                msg, _rid = result
                if msg.payload != g["payload"]:
                    sim.anomaly("payload-mismatch", ident)
                if seq in R.accepted:
                    sim.violation("C12/sequence-number-accepted-twice",
                                  dict(ident, earlier=[list(x) for x in R.accepted[seq]]))
                if R.highest is not None and seq < R.highest - W + 1:
                    sim.violation("C12/number-below-window-accepted", ident)
                if not was_init:
                    if fresh_echo:
                        sim.probe("echo_recovered")
                        R.model_init = True
                    elif g["echo"] is not None and g["echo"] in R.echoes[:R.cur]:
                        sim.violation("C12/stale-echo-accepted", dict(ident, echo=g["echo"].hex()))
                        R.model_init = True
                    else:
                        sim.violation("C12/accepted-while-uninitialized",
                                      dict(ident, echo=None if g["echo"] is None else g["echo"].hex()))
                        R.model_init = True
                elif R.highest is not None and seq < R.highest:
                    sim.probe("in_window_unseen_accepted")
                if R.highest is not None and seq > R.highest + W:
                    sim.probe("jump_beyond_window")
                    nontrivial[0] = True
                R.accepted.setdefault(seq, []).append((idx, R.cur))
                R.highest = seq if R.highest is None else max(R.highest, seq)
            else:
                if v.startswith("exc:"):
                    sim.violation("C12/unprotect-raises-%s" % v[4:], dict(ident, error=str(exc)[:120]))
                    continue
                if seq in R.accepted:
                    sim.probe("duplicate_rejected")
                elif R.highest is not None and seq < R.highest - W + 1:
                    sim.probe("below_window_rejected")
                    nontrivial[0] = True
                if was_init:
                    if (R.highest is None or seq > R.highest) and (R.failed_high is None or seq > R.failed_high):
                        sim.violation("C12/fresh-number-rejected", dict(ident, verdict=v, error=str(exc)[:100]))
                else:
                    if g["echo"] is not None and not fresh_echo:
                        sim.probe("stale_echo_rejected" if g["echo"] in R.echoes[:R.cur] else "bogus_echo_rejected")
                    if fresh_echo:
                        sim.anomaly("fresh-echo-rejected", ident)
                    elif v != "echo":
                        sim.violation("C12/no-echo-challenge-while-uninitialized", dict(ident, verdict=v))
                    else:
                        sim.probe("echo_challenge")
                        if not isinstance(exc, error.RenderableError):
                            sim.violation("C12/echo-challenge-not-renderable", ident)
                        elif not challenge_checked:
                            challenge_checked = True
                            try:
                                outer = exc.to_message()
                                resp, _ = S.unprotect(env.from_wire(env.to_wire(outer, 0x6000 + (idx & 0xFFF), b"E")),
                                                      g["rid"])
                                if int(resp.code) != rc.UNAUTHORIZED or resp.opt.echo != R.echoes[R.cur]:
                                    sim.violation("C12/echo-challenge-not-usable",
                                                  dict(ident, code=int(resp.code),
                                                       echo=None if resp.opt.echo is None else resp.opt.echo.hex()))
                            except Exception as e2:
                                sim.violation("C12/echo-challenge-not-usable",
                                              dict(ident, error="%s: %s" % (type(e2).__name__, str(e2)[:100])))
        return R

    full = run_pass(True)
    has_forgery = any(op[0] == "f" for op in scn["ops"])
    if has_forgery:
        ref = run_pass(False)
        for idx in sorted(full.verdicts):
            a, b = full.verdicts[idx], ref.verdicts.get(idx)
            if (a == "ok") != (b == "ok"):
                before = [scn["ops"][j] for j in range(idx) if scn["ops"][j][0] == "f"]
                sim.violation("C12/forgery-changed-verdict",
                              {"arrival": idx, "op": scn["ops"][idx], "with_forgeries": a, "without_forgeries": b,
                               "forgeries_before": before[-6:], "window": W})
                break
    for v in sim.violations:
        sim.log("violation", v["kind"])
    sim.nontrivial = nontrivial[0]
    sim.extra_faults = {}
    n_forged = sum(1 for op in scn["ops"] if op[0] == "f")
    n_dup = dups[0]
    if n_forged:
        sim.extra_faults["forgery"] = n_forged
    if n_dup > 0:
        sim.extra_faults["duplicate_arrival"] = n_dup
    nsf = sum(1 for v in full.verdicts.values() if v == "storefail")
    if nsf:
        sim.extra_faults["store_failure"] = nsf
    rs = sum(1 for op in scn["ops"] if op[0] == "restart")
    if rs:
        sim.extra_faults["state_loss"] = rs
    sim.signature = sig.hexdigest()


def evidence_extra(total):
    p = total["probes"]
    return {"genuine_arrivals_accepted": p.get("accepted", 0), "forged_arrivals": total["faults"].get("forgery", 0),
            "duplicate_arrivals": total["faults"].get("duplicate_arrival", 0),
            "state_losses": total["faults"].get("state_loss", 0)}
