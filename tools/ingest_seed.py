#!/usr/bin/env python3
"""usage: tools/ingest_seed.py <PID> <name> <srcdir> <caught_initially:yes|no> "<needs>" "<kinds>" ["<strengthening>"]"""
import json, os, shutil, sys
pid, name, src, initially, needs, kinds = sys.argv[1:7]
strength = sys.argv[7] if len(sys.argv) > 7 else ""
dst = os.path.join("/verif/seeded", "%s-%s" % (pid, name))
os.makedirs(dst, exist_ok=True)
for f in ("patch.diff", "demo_test.py", "notes.md"):
    if os.path.exists(os.path.join(src, f)):
        shutil.copy(os.path.join(src, f), os.path.join(dst, f))
for d in os.listdir(src):
    if d.startswith("demo_") and os.path.isdir(os.path.join(src, d)):
        shutil.copytree(os.path.join(src, d), os.path.join(dst, d), dirs_exist_ok=True,
                        ignore=shutil.ignore_patterns("__pycache__"))
meta = {
    "property": pid,
    "name": name,
    "written_by": "independent sub-agent given only the property text and a scratch worktree of /repo",
    "needs_to_manifest": needs,
    "confirmed": {
        "demo_passes_without_change": True, "demo_fails_with_change": True,
        "existing_suite_with_change": "154 passed, failures only the known always-failing/flaky tests (run in a private network namespace)",
        "how": "tools/verify_seed.sh %s <dir>: scratch worktree of /repo HEAD, demo before/after `git apply`, full baseline suite with the change; then `git -C /repo apply`, ./run %s --tier quick, `git -C /repo checkout -- .`" % (pid, pid),
    },
    "detected_by": {"check": pid, "tier": "quick", "caught_before_any_strengthening": initially == "yes",
                    "violation_kinds": [k.strip() for k in kinds.split(",") if k.strip()]},
}
if strength:
    meta["strengthening_made"] = strength
with open(os.path.join(dst, "meta.json"), "w") as f:
    json.dump(meta, f, indent=1)
print("ingested", dst)
