#!/bin/sh
# usage: tools/seed_stageB.sh <PID> <dir with patch.diff> [check ids]  -- run the check(s) against a scratch copy of /repo
# with the patch applied (does not touch /repo; equivalent to git -C /repo apply ... / checkout -- .)
PID=$1; SRC=$2; shift 2; CHECKS="$@"; [ -z "$CHECKS" ] && CHECKS=$PID
d=/dev/shm/seedtest-$PID-$$; rm -rf $d; mkdir -p $d; cp -r /repo/aiocoap $d/
(cd $d && patch -p1 -s < $SRC/patch.diff) || { echo "patch failed $PID"; rm -rf $d; exit 2; }
for c in $CHECKS; do
  out=$(VERIF_REPO=$d VERIF_EVIDENCE_DIR=/dev/shm/vs-evidence timeout 1800 /verif/run $c --tier quick 2>&1); rc=$?
  echo "check $c vs seed $PID: rc=$rc $(echo "$out" | grep -E 'kind=|HARNESS' | head -2 | cut -c1-200)"
done
rm -rf $d
