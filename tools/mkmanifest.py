#!/usr/bin/env python3
"""Regenerate /verif/MANIFEST.json from the check modules that exist."""

import glob
import json
import os
import re
import subprocess

VERIF = os.path.dirname(os.path.dirname(os.path.abspath(__file__)))

COMMON_NOTE = ("Trusted base: the simulator (virtual-time asyncio loop, socket/stream/file-system models written "
               "for this task), the independent reference codec and reference models used as oracles, and the "
               "assumption that asyncio's call_soon FIFO order is what deployments see. Sampled, not exhaustive: a "
               "clean batch is evidence, not proof. ")

T = {
    "C01": ("exploration", "seeded simulation; wire observer + datagram corruption faults vs independent RFC 7252 codec",
            "Real contexts exchange generated messages over the simulated UDP net; every emitted datagram is "
            "re-decoded/re-encoded by an independent codec, every corrupted datagram must be dropped as unparsable or "
            "round-trip, and no exception may leave the receive path. Weak fit (two clauses are pure functions); the "
            "system-level clause (endpoint survives any datagram) is what simulation adds.", "7/C01"),
    "C02": ("exploration", "seeded simulation; loss/dup/delay/reorder, forged responses, ICMP errors vs content-attributed oracle",
            "Concurrent tagged requests to real and scripted servers under per-datagram faults and an adversary "
            "injecting forged/late responses; oracle attributes responses by payload tags and wire tokens.", "7/C02"),
    "C03": ("exploration", "seeded simulation with exact virtual timestamps; per-copy scripted ACK/RST placement around retransmission timers",
            "Retransmission schedules of real message managers are observed on the simulated wire with exact "
            "virtual time; the acknowledgement is placed before / epsilon before / at / epsilon after each timer for "
            "random TransportTuning values, which wall-clock tests cannot do.", "7/C03"),
    "C04": ("exploration", "seeded simulation; duplicate request copies placed relative to handler completion, EMPTY_ACK_DELAY and EXCHANGE_LIFETIME",
            "Copies of request datagrams from several scripted clients (sharing MIDs) arrive at chosen instants "
            "incl. 247 s boundaries; handler invocations and re-sent acknowledgements are compared with the rule.", "7/C04"),
    "C05": ("exploration", "seeded simulation; real block-wise client vs independent RFC 7959 reference server incl. misbehaving variants",
            "Body sizes x size exponents x mid-transfer reduction x loss/dup, against a conforming-but-different "
            "server written from the RFC; misbehaving variants must end in an error.", "7/C05"),
    "C06": ("exploration", "seeded simulation; scripted Block1/Block2 sequences from several endpoints vs spool/cache reference model",
            "Interleaved block sequences (restart, repeat, skip, wrong size, idle gaps around 93 s / 186 s) checked "
            "operation by operation against an executable model.", "7/C06"),
    "C07": ("exploration", "seeded simulation; permuted/duplicated notification sequences, virtual wall clock, RFC 7641 reference",
            "Arbitrary Observe values and arrival times around 128 s with every terminator position, for the callback "
            "and the async-iterator interface.", "7/C07"),
    "C08": ("exploration", "seeded simulation; scripted observers (ACK/RST/silence/re-register/deregister) with triggers at arbitrary instants",
            "Rising numbers, eventual latest state, exactly-once cancellation and observer-count conservation under "
            "loss/dup/delay and every observer reaction.", "7/C08"),
    "C09": ("exploration", "seeded simulation; handler zoo x methods x CON/NON with concurrent neighbours under loss/dup",
            "Every handler outcome incl. failing renderers and slow completion after the empty ACK; exactly one final "
            "response with the prescribed code, no leak of exception text, isolation between requests.", "7/C09"),
    "C10": ("exploration", "seeded simulation; message type x code class x token x unicast/multicast table sweep with timing boundary",
            "Reaction table written from RFC 7252 section 4 / RFC 7967 applied to the wire log; handler completion placed "
            "epsilon before/after EMPTY_ACK_DELAY.", "7/C10"),
    "C11": ("exploration", "seeded simulation of an OSCORE pair over a faulty wire: bit flips, field rewrites, cross-delivery, replay",
            "Protect -> encode -> fault -> decode -> unprotect between real security contexts (real AEAD); tampering and "
            "cross-pairing are network faults. Weak fit for the round-trip clause (pure function).", "7/C11"),
    "C12": ("exploration", "seeded simulation; reordered/duplicated/forged protected requests vs replay-window rules and forgery-independence",
            "Any arrival order and multiplicity incl. forgeries with valid-looking numbers; metamorphic check that "
            "forgeries change no verdict.", "7/C12"),
    "C13": ("fault_enumeration", "simulated file system with operation journal; crash injected before every file-system step of each history",
            "Every crash point of sampled protect/unprotect/stop/reload histories is enumerated (process-death model, torn "
            "writes), plus a separate I/O-error configuration; nonce uniqueness is read from the returned messages.", "7/C13"),
    "C14": ("exploration", "seeded simulation; bursts of CON/NON submissions to several scripted peers with ACK/RST/silence/ICMP",
            "At most one open CON per remote at every instant, FIFO release in the very instant the previous exchange "
            "ends, none forgotten, others never delayed - read off the wire log with exact virtual time.", "7/C14"),
    "C15": ("exploration", "simulated byte streams: every chunking incl. byte-wise, resets/EOF, scripted RFC 8323 peer",
            "Segmentation independence (metamorphic over chunkings with cut-point enumeration for short streams), length "
            "encoding boundaries, CSM gate and signalling rules against a scripted peer.", "7/C15"),
    "C17": ("exploration", "seeded operation histories (add/remove/request/discovery) through the full stack vs routing model",
            "History and configuration dimensions only; requests in flight while registrations change.", "7/C17"),
    "C18": ("fault_enumeration", "shutdown injected at every event boundary of busy simulated scenarios",
            "Each scenario is first run without shutdown to collect its event boundaries, then re-run with "
            "Context.shutdown() started at each (quick: sampled) boundary; the loop is drained to quiescence so late "
            "timers are seen.", "7/C18"),
    "C19": ("exploration", "seeded simulation; hostile Uri-Path lists over a simulated file system with canaries and an operation journal",
            "Real FileServer over real pathlib arithmetic (SimPath) on an in-memory tree; every FS operation during a "
            "request must stay inside the root.", "7/C19"),
    "C20": ("exploration", "seeded operation histories with virtual time across lifetime boundaries vs registry reference model",
            "Register/update/delete/lookup sequences with time advancing across lt+grace boundaries, compared with an "
            "executable registry model.", "7/C20"),
}

# checks that are finished (others may exist as files while still under construction)
READY = ["C01", "C02", "C03", "C04", "C05", "C06", "C07", "C08", "C09", "C10", "C11", "C12", "C13", "C14", "C15", "C17", "C18", "C19", "C20"]

NA = {
    "C16": ("URI <-> option conversion is a pure function of its input: no schedule, clock, fault, crash point or "
            "history exists for a simulator to vary; deciding it would be property-based input generation in "
            "simulator costume (DESIGN.md section 8)."),
}


def main():
    present = sorted(os.path.basename(p)[:-3].upper() for p in glob.glob(os.path.join(VERIF, "checks", "c[0-9][0-9].py")))
    present = [p for p in present if p in READY]
    props = [json.loads(l)["id"] for l in open(os.path.join(VERIF, "properties.jsonl")) if l.strip()]
    hooks_commits = []
    checks = []
    na = []
    for pid in props:
        if pid in NA:
            na.append({"property_id": pid, "reason": NA[pid]})
            continue
        if pid not in present:
            na.append({"property_id": pid, "reason": "not claimed yet: its check is still under construction (design in DESIGN.md section 7)"})
            continue
        level, technique, text, ref = T[pid]
        checks.append({
            "property_id": pid,
            "quick_cmd": "./run %s --tier quick" % pid,
            "thorough_cmd": "./run %s --tier thorough" % pid,
            "evidence_file": "evidence/%s.json" % pid,
            "replay_cmd_template": "./run %s --replay {path}" % pid,
            "engine": "simkit",
            "level_claimed": {"category": level, "text": text, "design_ref": "DESIGN.md section " + ref},
            "level_note": COMMON_NOTE,
            "technique": "deterministic simulation with fault injection: " + technique,
        })
    m = {
        "version": 1,
        "setup_cmd": "./run setup",
        "hooks": {
            "guard": "AIOCOAP_VERIF",
            "enable": "no source hooks are needed: all seams are module-level names, constructor arguments or event-loop methods replaced from outside (DESIGN.md section 3.1); checks import /repo's working tree directly",
            "baseline_off_cmd": "cd /repo && /venv/bin/python -m pytest -ra -q -p no:cacheprovider --timeout=900 --continue-on-collection-errors",
            "source_commits": hooks_commits,
            "add_only": True,
        },
        "engines": [{
            "name": "simkit",
            "path": "simkit/",
            "serves_properties": [c["property_id"] for c in checks],
            "kind_free_text": "deterministic discrete-event simulator for asyncio (virtual-time event loop, simulated UDP/TCP/file system, keyed decision source, seeded search, ddmin minimiser, exact replay files)",
        }],
        "checks": checks,
        "not_applicable": na,
        "notes": "Entry point ./run <id> --tier quick|thorough; VERIF_SEED offsets the seed range; VERIF_REPO selects the tree (default /repo). Exit 0 held / 1 VIOLATION / 2 harness error. Known findings: known_findings.json.",
    }
    with open(os.path.join(VERIF, "MANIFEST.json"), "w") as f:
        json.dump(m, f, indent=1)
        f.write("\n")
    print("claimed:", [c["property_id"] for c in checks])
    print("not applicable / not yet:", [n["property_id"] for n in na])


if __name__ == "__main__":
    main()
