#!/bin/sh
# usage: tools/mkmutant.sh <PID> <name> <file relative to repo> <sed expression>
# writes mutants/<PID>/<name>.patch (a -p1 patch against the repo root)
set -e
PID=$1; NAME=$2; FILE=$3; EXPR=$4
D=$(mktemp -d /dev/shm/mkmut.XXXXXX)
mkdir -p $D/a/$(dirname $FILE) $D/b/$(dirname $FILE) /verif/mutants/$PID
cp /repo/$FILE $D/a/$FILE; cp /repo/$FILE $D/b/$FILE
sed -i "$EXPR" $D/b/$FILE
if cmp -s $D/a/$FILE $D/b/$FILE; then echo "NO CHANGE for $NAME"; rm -rf $D; exit 1; fi
(cd $D && diff -u a/$FILE b/$FILE > /verif/mutants/$PID/$NAME.patch || true)
rm -rf $D
echo "wrote mutants/$PID/$NAME.patch"
