#!/bin/sh
# usage: tools/soak.sh <tier> <seed_from> <seed_to> [ids...]   -- prints only runs that do not exit 0
TIER=$1; A=$2; B=$3; shift 3
IDS="$@"
[ -z "$IDS" ] && IDS="C01 C02 C03 C04 C05 C06 C07 C08 C09 C10 C11 C12 C13 C14 C15 C17 C18 C19 C20"
HERE="$(cd "$(dirname "$0")/.." && pwd)"
export VERIF_EVIDENCE_DIR=/dev/shm/soak-evidence-$$
s=$A
while [ $s -le $B ]; do
  for c in $IDS; do
    out=$(VERIF_SEED=$s timeout 7200 "$HERE/run" $c --tier $TIER 2>&1)
    rc=$?
    if [ $rc -ne 0 ]; then echo "=== seed=$s $c rc=$rc"; echo "$out" | grep -E "VIOLATION|kind=|HARNESS|RESULT" | cut -c1-400; fi
  done
  echo "seed $s done $(date +%H:%M:%S)"
  s=$((s+1))
done
rm -rf $VERIF_EVIDENCE_DIR
