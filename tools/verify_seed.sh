#!/bin/sh
# usage: tools/verify_seed.sh <PID> <dir containing patch.diff and demo_test.py> [check ids to run, default PID]
# Confirms in a scratch worktree: demo passes without the change, fails with it, the existing suite still passes
# with it; then applies it to /repo, runs the checks, and undoes it.
PID=$1; SRC=$2; shift 2; CHECKS="$@"; [ -z "$CHECKS" ] && CHECKS=$PID
WT=/tmp/vs-$PID-$$
git -C /repo worktree add -q --detach $WT HEAD || exit 2
cp $SRC/demo_test.py $WT/ 2>/dev/null
for f in $SRC/*.py; do [ -f "$f" ] && cp $f $WT/ 2>/dev/null; done
for d in $SRC/demo_*; do [ -d "$d" ] && cp -r $d $WT/ 2>/dev/null; done
DEMO_PY=${DEMO_PY:-/venv/bin/python}
rundemo() { (cd $WT && if [ "$DEMO_PY" = "/venv/bin/python" ] && grep -q "def test_" demo_test.py; then timeout 300 /venv/bin/python -m pytest -q -p no:cacheprovider demo_test.py >/tmp/vs-demo-$PID.log 2>&1; else timeout 300 $DEMO_PY demo_test.py >/tmp/vs-demo-$PID.log 2>&1; fi; echo $?); }
A=$(rundemo); echo "demo without change: rc=$A (expect 0)"
(cd $WT && git apply $SRC/patch.diff) || { echo "PATCH DOES NOT APPLY"; git -C /repo worktree remove --force $WT; exit 2; }
B=$(rundemo); echo "demo with change:    rc=$B (expect != 0)"
if [ "$SKIP_SUITE" != "1" ]; then
  # own network namespace: other test runs on this machine share the fixed loopback CoAP port
  (cd $WT && unshare -rn sh -c 'ip link set lo up; timeout 1500 /venv/bin/python -m pytest -q -p no:cacheprovider --timeout=900 --continue-on-collection-errors' > /tmp/vs-suite-$PID.log 2>&1)
  tail -1 /tmp/vs-suite-$PID.log
  grep -E "^FAILED|^ERROR" /tmp/vs-suite-$PID.log | grep -v -E "test_uri_parser|test_reverseproxy|test_tls|test_big_resource" | head -5
fi
git -C /repo worktree remove --force $WT
[ "$SKIP_CHECKS" = "1" ] && exit 0
# now the checks against /repo itself
git -C /repo apply $SRC/patch.diff || { echo "cannot apply to /repo"; exit 2; }
for c in $CHECKS; do
  out=$(VERIF_EVIDENCE_DIR=/dev/shm/vs-evidence timeout 1800 /verif/run $c --tier quick 2>&1); rc=$?
  echo "check $c: rc=$rc $(echo "$out" | grep -E 'kind=' | head -2 | cut -c1-200)"
done
git -C /repo checkout -- . ; git -C /repo status --short | head -3
